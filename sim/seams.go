package sim

import (
	"crypto"
	"errors"
	"fmt"
	"io"
	"os"
	"runtime"
	"syscall"
	"time"

	"github.com/spf13/afero"
)

// ErrInjected is the sentinel every injected fault returns. It is deliberately
// none of io.EOF, os.ErrNotExist, … so that no library special case swallows it.
var ErrInjected = errors.New("simulated dependency failure")

// Fault is one scheduled failure of one dependency call. Pos indexes the
// operation's dependency-call sequence (all seams share one counter), which is
// the "position k" of property C15.
type Fault struct {
	Pos     int    `json:"pos"`
	Call    string `json:"call,omitempty"` // call kind seen at Pos in the fault-free run (checked on replay)
	Kind    string `json:"kind"`           // err | partial_err | short_nil | early_eof
	Arg     int    `json:"arg,omitempty"`  // bytes delivered before the failure
	Persist bool   `json:"persist,omitempty"`
	// Errno gives the error an identity the operating system would give it: "" = the harness sentinel, otherwise an
	// *os.PathError around ENOENT / EINTR / EIO (what errors.Is and os.IsNotExist look at).
	Errno string `json:"errno,omitempty"`
}

// E is the error the failed call returns.
func (f *Fault) E() error {
	switch f.Errno {
	case "enoent":
		return &os.PathError{Op: "simulated", Path: "simulated", Err: syscall.ENOENT}
	case "eintr":
		return &os.PathError{Op: "simulated", Path: "simulated", Err: syscall.EINTR}
	case "eio":
		return &os.PathError{Op: "simulated", Path: "simulated", Err: syscall.EIO}
	case "temporary":
		return tempError{}
	case "unexpected_eof":
		// what a reader over a source that was cut off reports: an error, not the end of the data
		return io.ErrUnexpectedEOF
	case "unexpected_eof_wrapped":
		return &os.PathError{Op: "simulated", Path: "simulated", Err: io.ErrUnexpectedEOF}
	}
	return ErrInjected
}

// Call kinds.
const (
	cOpenFile = "fs.OpenFile"
	cOpen     = "fs.Open"
	cCreate   = "fs.Create"
	cFsStat   = "fs.Stat"
	cFsOther  = "fs.Other"
	cStat     = "file.Stat"
	cRead     = "file.Read"
	cReadAtF  = "file.ReadAt"
	cWrite    = "file.Write"
	cWriteAt  = "file.WriteAt"
	cClose    = "file.Close"
	cSeek     = "file.Seek"
	cFileOth  = "file.Other"
	cSign     = "signer.Sign"
	cReadAt   = "reader.ReadAt"
)

// faultKindsFor lists the failure kinds that are legal for a call kind.
func faultKindsFor(call string) []string {
	switch call {
	case cOpenFile, cOpen, cCreate, cFsStat, cStat, cClose, cSign, cSeek:
		return []string{"err"}
	case cRead, cReadAtF:
		return []string{"err", "partial_err", "early_eof"}
	case cWrite:
		return []string{"err", "partial_err", "short_nil", "err_full"}
	case cWriteAt:
		return []string{"err", "partial_err", "short_nil"}
	case cReadAt:
		return []string{"err", "partial_err"}
	}
	return nil
}

// Plane is the fault plane of one run: it counts dependency calls, records
// their sequence, and decides which of them fail.
type Plane struct {
	x       *X
	n       int
	faults  map[int]*Fault
	persist *Fault
	armed   bool
	paused  bool     // calls are neither counted nor failed (harness-side reads of the medium)
	Calls   []string // the recorded dependency-call sequence since the last Reset
	Details []string // per call: offset/length where the seam knows them
	Fired   []string
	FiredAt []int             // positions of the calls that failed
	yield   func(site string) // scheduler hook (sched engine); nil otherwise
}

func NewPlane(x *X) *Plane { return &Plane{x: x, faults: map[int]*Fault{}} }

// Arm installs faults and resets the call counter: the next dependency call is
// position 0.
func (p *Plane) Arm(fs []Fault) {
	p.n = 0
	p.Calls = p.Calls[:0]
	p.Details = p.Details[:0]
	p.Fired = p.Fired[:0]
	p.FiredAt = p.FiredAt[:0]
	p.persist = nil
	p.faults = map[int]*Fault{}
	for i := range fs {
		f := fs[i]
		p.faults[f.Pos] = &f
	}
	p.armed = true
}

// Healthy runs fn with the plane paused: the harness's own reads of the
// simulated media are not part of the operation under test.
func (p *Plane) Healthy(fn func()) {
	old := p.paused
	p.paused = true
	defer func() { p.paused = old }()
	fn()
}

// Disarm lifts every fault; calls are still counted and recorded.
func (p *Plane) Disarm() {
	p.armed = false
	p.persist = nil
	p.faults = map[int]*Fault{}
}

// hit is called by every seam at the start of every dependency call.
func (p *Plane) hit(call string) *Fault { return p.hitD(call, "") }

func (p *Plane) hitD(call, detail string) *Fault {
	if p.paused {
		return nil
	}
	pos := p.n
	p.n++
	p.Calls = append(p.Calls, call)
	p.Details = append(p.Details, detail)
	if !p.armed {
		return nil
	}
	f := p.persist
	if pf, ok := p.faults[pos]; ok {
		f = pf
		if pf.Persist {
			p.persist = pf
		}
	}
	if f == nil {
		return nil
	}
	// a fault kind that does not apply to this call kind degrades to "err"
	kind := f.Kind
	ok := false
	for _, k := range faultKindsFor(call) {
		if k == kind {
			ok = true
		}
	}
	if !ok {
		if len(faultKindsFor(call)) == 0 {
			return nil
		}
		kind = "err"
	}
	g := *f
	g.Kind = kind
	g.Call = call
	fk := kind
	if f.Errno != "" {
		fk += "/" + f.Errno
	}
	p.Fired = append(p.Fired, fmt.Sprintf("%d:%s:%s", pos, call, fk))
	p.FiredAt = append(p.FiredAt, pos)
	if p.x != nil {
		p.x.Fault(call + "/" + kind)
		p.x.Logf("fault pos=%d call=%s kind=%s arg=%d", pos, call, kind, g.Arg)
	}
	return &g
}

// ---------------------------------------------------------------- signer

// SimSigner wraps a pool key. Sign fails when the plane says so.
type SimSigner struct {
	inner crypto.Signer
	p     *Plane
	Calls int
	// Delay is the simulated latency of the signing device (a token, an HSM):
	// the simulated clock advances by this much while Sign is in progress.
	Delay time.Duration
	// FailNext: the device refuses the next FailNext requests; Temporary: with an error that says it is temporary.
	FailNext  int
	Temporary bool
}

// tempError is what a busy token answers: net.Error-like, Temporary() and Timeout() true.
type tempError struct{}

func (tempError) Error() string   { return "simulated dependency failure (device busy, temporary)" }
func (tempError) Temporary() bool { return true }
func (tempError) Timeout() bool   { return true }

func (s *SimSigner) Public() crypto.PublicKey { return s.inner.Public() }

func (s *SimSigner) Sign(rand io.Reader, digest []byte, opts crypto.SignerOpts) ([]byte, error) {
	s.Calls++
	if s.p.yield != nil {
		s.p.yield("signer.Sign:enter")
	}
	if f := s.p.hit(cSign); f != nil {
		if f.Errno == "partial_sig" {
			// a device that disappears in the middle of its answer: some bytes AND an error
			sig, _ := s.inner.Sign(rand, digest, opts)
			return sig[:len(sig)/2], ErrInjected
		}
		return nil, f.E()
	}
	if s.FailNext > 0 {
		s.FailNext--
		if s.Temporary {
			return nil, tempError{}
		}
		return nil, ErrInjected
	}
	if s.Delay > 0 {
		time.Sleep(s.Delay)
	}
	sig, err := s.inner.Sign(rand, digest, opts)
	if s.p.yield != nil {
		s.p.yield("signer.Sign:exit")
	}
	return sig, err
}

// ---------------------------------------------------------------- reader

// SimReader is the image medium: an io.ReaderAt over memory. It follows the
// os.File convention (full reads return nil error; a read that hits the end
// returns io.EOF with the bytes available) and never returns a short count
// without an error.
type SimReader struct {
	data []byte
	p    *Plane
	// EOFWithData: a read that ends exactly at the end of the data returns (len, io.EOF) — the other behaviour the
	// io.ReaderAt contract allows ("may return either err == EOF or err == nil")
	EOFWithData bool
}

// SimReadSeeker is the same medium for callers that hold a file: besides positional reads it has a cursor (Read, Seek).
// The cursor belongs to whoever opened the file, i.e. to the caller; a library that parses the file through ReadAt has no
// business moving it.
type SimReadSeeker struct {
	*SimReader
	pos int64
}

func (r *SimReadSeeker) Read(b []byte) (int, error) {
	n, err := r.SimReader.ReadAt(b, r.pos)
	r.pos += int64(n)
	if err == io.EOF && n > 0 {
		err = nil
	}
	return n, err
}

func (r *SimReadSeeker) Seek(off int64, whence int) (int64, error) {
	switch whence {
	case io.SeekStart:
		r.pos = off
	case io.SeekCurrent:
		r.pos += off
	case io.SeekEnd:
		r.pos = int64(len(r.data)) + off
	}
	if r.pos < 0 {
		r.pos = 0
		return 0, errors.New("simreader: negative position")
	}
	return r.pos, nil
}

func (r *SimReader) ReadAt(b []byte, off int64) (int, error) {
	if r.p != nil && r.p.yield != nil {
		r.p.yield("reader.ReadAt")
	} else {
		// a medium has latency: whoever else is runnable in the process (goroutines the code under test started itself)
		// gets the processor while this read is "in flight". With one caller and no such goroutines this does nothing.
		runtime.Gosched()
	}
	if r.p != nil {
		if f := r.p.hitD(cReadAt, fmt.Sprintf("off=%d len=%d", off, len(b))); f != nil {
			switch f.Kind {
			case "partial_err":
				avail := int64(len(r.data)) - off
				n := f.Arg
				if int64(n) > avail {
					n = int(max(avail, 0))
				}
				if n >= len(b) {
					n = len(b) - 1
				}
				if n < 0 {
					n = 0
				}
				copy(b[:n], r.data[off:])
				return n, f.E()
			default:
				return 0, f.E()
			}
		}
	}
	if off < 0 {
		return 0, errors.New("simreader: negative offset")
	}
	if off >= int64(len(r.data)) {
		return 0, io.EOF
	}
	n := copy(b, r.data[off:])
	if n < len(b) {
		return n, io.EOF
	}
	if r.EOFWithData && off+int64(n) == int64(len(r.data)) {
		return n, io.EOF
	}
	return n, nil
}

// ---------------------------------------------------------------- filesystem

// FsEvent is one recorded call at the filesystem boundary.
type FsEvent struct {
	Tag    int // which client/operation issued the call (interleaved runs)
	Call   string
	Path   string // fs-level calls and the path the handle was opened on
	Handle int    // 0 for fs-level calls
	Flags  int
	Perm   os.FileMode
	Buf    []byte // Write*: the buffer handed in (copied)
	Len    int    // Read*: len(p)
	N      int
	Err    string
	Detail string
}

func (e FsEvent) String() string {
	s := fmt.Sprintf("%s h=%d path=%q", e.Call, e.Handle, e.Path)
	switch e.Call {
	case cOpenFile:
		s += fmt.Sprintf(" flags=%#x perm=%#o", e.Flags, e.Perm)
	case cWrite, cWriteAt, "file.WriteString":
		s += fmt.Sprintf(" buf=%s n=%d", shortHex(e.Buf), e.N)
	case cRead, cReadAtF:
		s += fmt.Sprintf(" len=%d n=%d", e.Len, e.N)
	}
	if e.Detail != "" {
		s += " " + e.Detail
	}
	if e.Err != "" {
		s += " err=" + e.Err
	}
	return s
}

// SimFs wraps an afero.Fs (a MemMapFs): it records every call, injects the
// plane's faults, and delivers reads in the configured legal chunking.
type SimFs struct {
	inner    afero.Fs
	p        *Plane
	x        *X
	Events   []FsEvent
	nh       int
	ReadMax  []int // legal short reads: the i-th Read delivers at most ReadMax[i%len] bytes (0 = unlimited)
	nread    int
	FakeName string
	TagFn    func() int // tags recorded events with the issuing client/operation
	// ShortWriteNext > 0: the next Write accepts only that many bytes and
	// reports the short count with a nil error (device behaviour, one shot).
	ShortWriteNext int
	// EnforceParents: creating a file in a directory that does not exist fails with ENOENT,
	// as on a real filesystem (MemMapFs would silently create the parents).
	EnforceParents bool
}

func NewSimFs(inner afero.Fs, p *Plane, x *X) *SimFs {
	return &SimFs{inner: inner, p: p, x: x, FakeName: "MemMapFS"}
}

func errStr(err error) string {
	if err == nil {
		return ""
	}
	return err.Error()
}

// y is a scheduling point: the operating system may run another caller before
// the call takes effect.
func (s *SimFs) y(site string) {
	if s.p != nil && s.p.yield != nil {
		s.p.yield(site)
	}
}

// Since returns the events recorded from index start on that carry the tag.
func (s *SimFs) Since(start, tag int) []FsEvent {
	if s.TagFn == nil {
		return s.Events[start:]
	}
	var out []FsEvent
	for _, e := range s.Events[start:] {
		if e.Tag == tag {
			out = append(out, e)
		}
	}
	return out
}

func (s *SimFs) rec(e FsEvent) {
	if s.TagFn != nil {
		e.Tag = s.TagFn()
	}
	s.Events = append(s.Events, e)
	if s.x != nil {
		s.x.Logf("fs %s", e.String())
	}
}

func (s *SimFs) open(call, name string, flag int, perm os.FileMode, do func() (afero.File, error)) (afero.File, error) {
	s.y(call)
	if f := s.p.hit(call); f != nil {
		s.rec(FsEvent{Call: call, Path: name, Flags: flag, Perm: perm, Err: f.E().Error()})
		return nil, f.E()
	}
	f, err := do()
	if err != nil {
		s.rec(FsEvent{Call: call, Path: name, Flags: flag, Perm: perm, Err: err.Error()})
		return nil, err
	}
	s.nh++
	s.rec(FsEvent{Call: call, Path: name, Handle: s.nh, Flags: flag, Perm: perm})
	return &simFile{File: f, fs: s, h: s.nh, path: name}, nil
}

func (s *SimFs) Create(name string) (afero.File, error) {
	return s.open(cCreate, name, os.O_RDWR|os.O_CREATE|os.O_TRUNC, 0o666, func() (afero.File, error) { return s.inner.Create(name) })
}
func (s *SimFs) Open(name string) (afero.File, error) {
	return s.open(cOpen, name, os.O_RDONLY, 0, func() (afero.File, error) { return s.inner.Open(name) })
}
func (s *SimFs) OpenFile(name string, flag int, perm os.FileMode) (afero.File, error) {
	return s.open(cOpenFile, name, flag, perm, func() (afero.File, error) {
		if s.EnforceParents && flag&os.O_CREATE != 0 {
			dir := name
			for len(dir) > 1 && dir[len(dir)-1] != '/' {
				dir = dir[:len(dir)-1]
			}
			if len(dir) > 1 {
				dir = dir[:len(dir)-1]
			}
			if fi, err := s.inner.Stat(dir); err != nil || !fi.IsDir() {
				return nil, &os.PathError{Op: "open", Path: name, Err: os.ErrNotExist}
			}
		}
		return s.inner.OpenFile(name, flag, perm)
	})
}

func (s *SimFs) other(call, path, detail string, do func() error) error {
	s.y(call)
	s.p.hit(cFsOther)
	err := do()
	s.rec(FsEvent{Call: call, Path: path, Detail: detail, Err: errStr(err)})
	return err
}

func (s *SimFs) Mkdir(name string, perm os.FileMode) error {
	return s.other("fs.Mkdir", name, "", func() error { return s.inner.Mkdir(name, perm) })
}
func (s *SimFs) MkdirAll(path string, perm os.FileMode) error {
	return s.other("fs.MkdirAll", path, "", func() error { return s.inner.MkdirAll(path, perm) })
}
func (s *SimFs) Remove(name string) error {
	return s.other("fs.Remove", name, "", func() error { return s.inner.Remove(name) })
}
func (s *SimFs) RemoveAll(path string) error {
	return s.other("fs.RemoveAll", path, "", func() error { return s.inner.RemoveAll(path) })
}
func (s *SimFs) Rename(o, n string) error {
	return s.other("fs.Rename", o, "to="+n, func() error { return s.inner.Rename(o, n) })
}
func (s *SimFs) Chmod(name string, mode os.FileMode) error {
	return s.other("fs.Chmod", name, "", func() error { return s.inner.Chmod(name, mode) })
}
func (s *SimFs) Chown(name string, uid, gid int) error {
	return s.other("fs.Chown", name, "", func() error { return s.inner.Chown(name, uid, gid) })
}
func (s *SimFs) Chtimes(name string, a, m time.Time) error {
	return s.other("fs.Chtimes", name, "", func() error { return s.inner.Chtimes(name, a, m) })
}
func (s *SimFs) Stat(name string) (os.FileInfo, error) {
	s.y(cFsStat)
	if f := s.p.hit(cFsStat); f != nil {
		s.rec(FsEvent{Call: cFsStat, Path: name, Err: f.E().Error()})
		return nil, f.E()
	}
	fi, err := s.inner.Stat(name)
	s.rec(FsEvent{Call: cFsStat, Path: name, Err: errStr(err)})
	return fi, err
}
func (s *SimFs) Name() string { return s.FakeName }

type simFile struct {
	afero.File
	fs   *SimFs
	h    int
	path string
}

func (f *simFile) ev(call string) FsEvent { return FsEvent{Call: call, Handle: f.h, Path: f.path} }

func (f *simFile) Close() error {
	f.fs.y(cClose)
	e := f.ev(cClose)
	flt := f.fs.p.hit(cClose)
	err := f.File.Close() // the handle is released either way, as close(2) does
	if flt != nil {
		err = flt.E()
	}
	e.Err = errStr(err)
	f.fs.rec(e)
	return err
}

func (f *simFile) Stat() (os.FileInfo, error) {
	f.fs.y(cStat)
	e := f.ev(cStat)
	if flt := f.fs.p.hit(cStat); flt != nil {
		e.Err = flt.E().Error()
		f.fs.rec(e)
		return nil, flt.E()
	}
	fi, err := f.File.Stat()
	e.Err = errStr(err)
	if fi != nil {
		e.Detail = fmt.Sprintf("size=%d", fi.Size())
	}
	f.fs.rec(e)
	return fi, err
}

func (f *simFile) Read(p []byte) (int, error) {
	f.fs.y(cRead)
	e := f.ev(cRead)
	e.Len = len(p)
	q := p
	if len(f.fs.ReadMax) > 0 {
		m := f.fs.ReadMax[f.fs.nread%len(f.fs.ReadMax)]
		f.fs.nread++
		if m > 0 && m < len(q) {
			q = q[:m]
			if f.fs.x != nil {
				f.fs.x.Probe("legal_short_read")
			}
		}
	}
	if flt := f.fs.p.hit(cRead); flt != nil {
		switch flt.Kind {
		case "partial_err":
			k := flt.Arg
			if k >= len(q) {
				k = len(q) - 1
			}
			if k < 0 {
				k = 0
			}
			n, _ := f.File.Read(q[:k])
			e.N, e.Err = n, flt.E().Error()
			f.fs.rec(e)
			return n, flt.E()
		case "early_eof":
			e.N, e.Err = 0, "EOF(injected)"
			f.fs.rec(e)
			return 0, io.EOF
		default:
			e.Err = flt.E().Error()
			f.fs.rec(e)
			return 0, flt.E()
		}
	}
	n, err := f.File.Read(q)
	e.N, e.Err = n, errStr(err)
	f.fs.rec(e)
	return n, err
}

func (f *simFile) ReadAt(p []byte, off int64) (int, error) {
	e := f.ev(cReadAtF)
	e.Len = len(p)
	e.Detail = fmt.Sprintf("off=%d", off)
	if flt := f.fs.p.hit(cReadAtF); flt != nil {
		e.Err = flt.E().Error()
		f.fs.rec(e)
		return 0, flt.E()
	}
	n, err := f.File.ReadAt(p, off)
	e.N, e.Err = n, errStr(err)
	f.fs.rec(e)
	return n, err
}

func (f *simFile) Write(p []byte) (int, error) {
	// a write(2) may block before the kernel copies the caller's buffer
	f.fs.y(cWrite)
	e := f.ev(cWrite)
	e.Buf = append([]byte(nil), p...)
	if k := f.fs.ShortWriteNext; k > 0 && len(p) > 1 {
		f.fs.ShortWriteNext = 0
		if k >= len(p) {
			k = len(p) - 1
		}
		n, _ := f.File.Write(p[:k])
		e.N, e.Detail = n, "device accepted a short count, nil error"
		f.fs.rec(e)
		return n, nil
	}
	if flt := f.fs.p.hit(cWrite); flt != nil {
		k := flt.Arg
		if k >= len(p) {
			k = len(p) - 1
		}
		if k < 0 {
			k = 0
		}
		switch flt.Kind {
		case "err_full":
			// every byte was taken and the device still reports a failure (e.g. the firmware rejected the update)
			n, _ := f.File.Write(p)
			e.N, e.Err = n, flt.E().Error()
			f.fs.rec(e)
			return n, flt.E()
		case "partial_err":
			n, _ := f.File.Write(p[:k])
			e.N, e.Err = n, flt.E().Error()
			f.fs.rec(e)
			return n, flt.E()
		case "short_nil":
			n, _ := f.File.Write(p[:k])
			e.N, e.Detail = n, "short count, nil error (injected)"
			f.fs.rec(e)
			return n, nil
		default:
			e.Err = flt.E().Error()
			f.fs.rec(e)
			return 0, flt.E()
		}
	}
	n, err := f.File.Write(p)
	e.N, e.Err = n, errStr(err)
	f.fs.rec(e)
	return n, err
}

func (f *simFile) WriteAt(p []byte, off int64) (int, error) {
	e := f.ev(cWriteAt)
	e.Buf = append([]byte(nil), p...)
	e.Detail = fmt.Sprintf("off=%d", off)
	if flt := f.fs.p.hit(cWriteAt); flt != nil {
		e.Err = flt.E().Error()
		f.fs.rec(e)
		return 0, flt.E()
	}
	n, err := f.File.WriteAt(p, off)
	e.N, e.Err = n, errStr(err)
	f.fs.rec(e)
	return n, err
}

func (f *simFile) WriteString(s string) (int, error) {
	e := f.ev("file.WriteString")
	e.Buf = []byte(s)
	f.fs.p.hit(cFileOth)
	n, err := f.File.WriteString(s)
	e.N, e.Err = n, errStr(err)
	f.fs.rec(e)
	return n, err
}

func (f *simFile) Seek(off int64, whence int) (int64, error) {
	e := f.ev(cSeek)
	e.Detail = fmt.Sprintf("off=%d whence=%d", off, whence)
	if flt := f.fs.p.hit(cSeek); flt != nil {
		e.Err = flt.E().Error()
		f.fs.rec(e)
		return 0, flt.E()
	}
	n, err := f.File.Seek(off, whence)
	e.Err = errStr(err)
	f.fs.rec(e)
	return n, err
}

func (f *simFile) Truncate(size int64) error {
	e := f.ev("file.Truncate")
	e.Detail = fmt.Sprintf("size=%d", size)
	f.fs.p.hit(cFileOth)
	err := f.File.Truncate(size)
	e.Err = errStr(err)
	f.fs.rec(e)
	return err
}

func (f *simFile) Sync() error {
	e := f.ev("file.Sync")
	f.fs.p.hit(cFileOth)
	err := f.File.Sync()
	e.Err = errStr(err)
	f.fs.rec(e)
	return err
}

func (f *simFile) Readdir(n int) ([]os.FileInfo, error) {
	f.fs.p.hit(cFileOth)
	f.fs.rec(f.ev("file.Readdir"))
	return f.File.Readdir(n)
}

func (f *simFile) Readdirnames(n int) ([]string, error) {
	f.fs.p.hit(cFileOth)
	f.fs.rec(f.ev("file.Readdirnames"))
	return f.File.Readdirnames(n)
}

// mutating reports whether a recorded event changes (or may change) stored state.
func (e FsEvent) mutating() bool {
	switch e.Call {
	case cCreate, "fs.Mkdir", "fs.MkdirAll", "fs.Remove", "fs.RemoveAll", "fs.Rename", "fs.Chmod", "fs.Chown", "fs.Chtimes",
		cWrite, cWriteAt, "file.WriteString", "file.Truncate":
		return true
	case cOpenFile:
		return e.Flags&(os.O_WRONLY|os.O_RDWR|os.O_CREATE|os.O_TRUNC|os.O_APPEND) != 0
	}
	return false
}
