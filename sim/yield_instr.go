//go:build instr

package sim

import "github.com/foxboron/go-uefi/simyield"

// setYieldHook connects the yield points that tools/yieldpass inserted into
// the scratch copy of the repository with the scheduler.
func setYieldHook(f func(string)) { simyield.Hook = f }

// setBlockHook connects the cooperative lock acquisition loops.
func setBlockHook(f func(string)) { simyield.BlockHook = f }

const instrumentedBuild = true
