package sim

import (
	"bytes"
	"crypto"
	"encoding/binary"
	"encoding/json"
	"fmt"
	"io"
	"time"

	"github.com/foxboron/go-uefi/authenticode"
)

// signhist — property C03: signing histories of a parsed image under a
// simulated clock, judged after every step by independent PE and CMS readers.

type shCfg struct {
	Image   ImgSpec `json:"image"`
	Instant string  `json:"instant"`
	// Foreign: before the history starts the (unsigned) image is signed the way another tool signs it: SignedData with
	// extra authenticated attributes, the blob optionally zero-padded to 8 bytes with the padding counted in dwLength
	// (osslsigncode), or followed by alignment filler that is not zero.
	Foreign *shForeign `json:"foreign,omitempty"`
	// Other: a second, different image that is parsed before the history starts and stays alive beside it; what the
	// history does to the first image must not show on the second one.
	Other *PESpec `json:"other,omitempty"`
	// Reader: what the caller hands to Parse. "" = the simulated medium; "bytes" = a *bytes.Reader; "sniffed" = a
	// *bytes.Reader the caller has already read the first bytes from (to look at the MZ magic); "section" = an
	// io.SectionReader over the image embedded at an offset inside a larger file.
	Reader string `json:"reader,omitempty"`
}

type shForeign struct {
	Key      int  `json:"key"`
	Extra    int  `json:"extra_attrs"`
	PadInLen bool `json:"pad_counted_in_dwlength,omitempty"`
	Filler   bool `json:"nonzero_filler,omitempty"`
}

type shOp struct {
	Op  string `json:"op"` // Sign | SignBoth | Reparse | ReparseViaOpen | Verify | Hash | Signatures
	Key int    `json:"key,omitempty"`
	// DelayMs: simulated latency of the signing device (the clock moves on while Sign waits for it)
	DelayMs int `json:"signer_delay_ms,omitempty"`
	// SignBoth: this image and the second image of the run are signed by two callers at the same time; Key2 signs the
	// second image, Sw is the schedule (the signing device is the yield point)
	Key2 int      `json:"key2,omitempty"`
	Sw   []Switch `json:"sw,omitempty"`
}

type signhistEngine struct{}

func init() { register(&signhistEngine{}) }

func (e *signhistEngine) Name() string     { return "signhist" }
func (e *signhistEngine) Property() string { return "C03" }

func (e *signhistEngine) Plan(seed uint64, tier string) int {
	if tier == "thorough" {
		return 1500000
	}
	return 24000
}

var shFixtures = []string{"test.pecoff", "HelloWorld.efi", "HelloWorld.efi.signed", "linuxx64.efi.stub", "test.pecoff.signed"}

func (e *signhistEngine) Gen(seed uint64, tier string, run int) *Trace {
	r := NewR(seed, "signhist", run)
	var c shCfg
	if r.Chance(1, 12) {
		c.Image = ImgSpec{Fixture: Pick(r, shFixtures)}
	} else {
		c.Image = ImgSpec{Gen: genPESpec(r.Fork("img"))}
	}
	t, _ := genInstant(r)
	c.Instant = t.Format(time.RFC3339)
	if fr := r.Fork("foreign"); c.Image.Gen != nil && fr.Chance(1, 7) {
		c.Foreign = &shForeign{Key: Pick(fr, []int{0, 1, 8, 21, 22, 23}), Extra: fr.Intn(4), PadInLen: fr.Chance(1, 3)}
		c.Foreign.Filler = !c.Foreign.PadInLen && fr.Chance(1, 2)
	}
	if or := r.Fork("other"); or.Chance(1, 5) {
		c.Other = genPESpec(or)
		if or.Bool() && c.Other.Trailing == 0 {
			c.Other.Trailing = or.Range(1, 7) // a size that is not a multiple of 8 more often
		}
	}
	c.Reader = Pick(r.Fork("reader"), []string{"", "", "", "bytes", "sniffed", "section", "seekable", "eofdata"})
	// swarm: key subset of this run (keeps collisions and repeats frequent)
	var keys []int
	switch r.Intn(8) {
	case 6, 7:
		keys = []int{10 + r.Intn(8), 10 + r.Intn(8), 10 + r.Intn(8)} // certificate lengths 796..803: every entry length modulo 8
		if r.Chance(1, 10) {
			keys[0] = 18 // a signature blob beyond 65535 bytes
		}
	case 5:
		keys = []int{8, 9, 0} // CA-issued leaves (issuer != subject; same issuer, different serials)
	case 0:
		keys = []int{0, 4} // issuer+serial collision pair
	case 1:
		keys = []int{1, 5, 6} // shared serial / shared issuer
	case 2:
		keys = []int{0, 1, 2, 3}
	default:
		keys = []int{r.Intn(2), r.Intn(poolSize), r.Intn(poolSize)}
	}
	nops := r.Range(1, 8)
	var ops []shOp
	signed := false
	for i := 0; i < nops; i++ {
		w := []int{4, 2, 1, 4, 1, 1}
		if !signed {
			w = []int{8, 1, 1, 1, 1, 1}
		}
		switch r.Weighted(w) {
		case 0:
			k := Pick(r, keys)
			if k >= 2 && k <= 3 && r.Chance(2, 3) {
				k = Pick(r, []int{0, 1}) // the big keys are slow: keep them rare
			}
			op := shOp{Op: "Sign", Key: k}
			if r.Chance(1, 5) {
				op.DelayMs = Pick(r, []int{1, 400, 999, 1000, 1100, 2500, 61000})
			}
			if c.Other != nil && r.Chance(1, 3) {
				op.Op, op.Key2 = "SignBoth", Pick(r, []int{0, 1, 8, 21})
				for y := r.Intn(2); y < 40; y += 1 + r.Intn(3) {
					op.Sw = append(op.Sw, Switch{Yield: y, Next: 0})
				}
			}
			ops = append(ops, op)
			signed = true
		case 1:
			ops = append(ops, shOp{Op: "Reparse"})
		case 2:
			ops = append(ops, shOp{Op: "ReparseViaOpen"})
		case 3:
			k := Pick(r, keys)
			if r.Chance(1, 3) {
				k = r.Intn(poolSize)
			}
			ops = append(ops, shOp{Op: "Verify", Key: k})
		case 4:
			ops = append(ops, shOp{Op: "Hash"})
		case 5:
			ops = append(ops, shOp{Op: "Signatures"})
		}
	}
	return &Trace{Property: "C03", Engine: "signhist", Seed: seed, Run: run, Tier: tier,
		Cfg: mustJSON(c), Ops: rawList(ops), Faults: []json.RawMessage{}, Schedule: []json.RawMessage{}}
}

func (e *signhistEngine) Exec(tr *Trace, x *X) {
	var c shCfg
	if err := json.Unmarshal(tr.Cfg, &c); err != nil {
		harnessf("signhist cfg: %v", err)
	}
	ops, err := unrawList[shOp](tr.Ops)
	if err != nil {
		harnessf("signhist ops: %v", err)
	}
	at, err := time.Parse(time.RFC3339, c.Instant)
	if err != nil {
		harnessf("signhist instant: %v", err)
	}
	x.Sim(at.Unix())
	if pv := inBubble(x.T, at.UTC(), "", func() { shExec(c, ops, x) }); pv != nil {
		panic(pv)
	}
}

// shSigner is one entry of the model: who signed, -1 for a signature that was
// already in the input file.
type shState struct {
	orig     []byte
	origData []byte // orig without its certificate table
	dirOff   int
	refHash  []byte // specification digest of the padded original
	signers  []int
	nForeign int      // the first nForeign entries were written by another tool (known signer, foreign encoding)
	entries  [][]byte // raw bytes of the table entries seen after the previous step
}

func shExec(c shCfg, ops []shOp, x *X) {
	// an exported helper hands out padding; whoever asked for it may do with it what it likes
	if pad, n := authenticode.PaddingBytes(1+len(c.Instant)%7, 8); n > 0 {
		for k := range pad[:cap(pad)] {
			pad[:cap(pad)][k] = 0x07
		}
	}
	orig := c.Image.Bytes()
	if c.Foreign != nil {
		var lf *libraryFailure
		func() {
			defer func() {
				if r := recover(); r != nil {
					if f, ok := r.(libraryFailure); ok {
						lf = &f
						return
					}
					panic(r)
				}
			}()
			orig = shForeignSigned(orig, *c.Foreign)
		}()
		if lf != nil {
			// the other tool's signature is built on the library's own content structure: the library failed before the history began
			x.Fail("signhist.sign_succeeds", -1, "Sign", "%s", lf.msg)
			return
		}
		x.Probe("start_signed_by_another_tool")
	}
	pe0, ents0, err := refPECertTable(orig)
	if err != nil {
		harnessf("signhist: input image %s is not well-formed for the reference reader: %v", c.Image.String(), err)
	}
	// the bystander
	var other *authenticode.PECOFFBinary
	var otherRd *SimReader
	var otherHash, otherBytes []byte
	var st2 *shState
	if c.Other != nil {
		ob := buildPE(c.Other)
		otherRd = &SimReader{data: ob}
		if pe2, _, err := refPECertTable(ob); err == nil {
			st2 = &shState{orig: ob, dirOff: pe2.CertDirOff, origData: ob}
			st2.refHash, _ = refPEDigest(ob, true)
		}
		other, err = authenticode.Parse(otherRd)
		if err != nil {
			x.Fail("signhist.parse_well_formed", -1, "Parse", "well-formed image (the second one of this run) rejected: %v", err)
			return
		}
		otherHash, otherBytes = other.Hash(crypto.SHA256), other.Bytes()
		if ref, err := refPEDigest(ob, true); err != nil || !bytes.Equal(ref, otherHash) {
			x.Fail("signhist.hash_constant", -1, "Parse", "second image of the run: Hash() = %x, specification digest = %x (%v)", otherHash, ref, err)
			return
		}
		x.Probe("second_image_alive")
	}
	bystander := func(i int, kind string) bool {
		if other == nil {
			return true
		}
		if st2 != nil && len(st2.signers) > 0 {
			// it has been signed in the meantime (by the second caller): it is judged like the first image
			return shCheck(x, i, kind+"(second image)", st2, other)
		}
		if h := other.Hash(crypto.SHA256); !bytes.Equal(h, otherHash) {
			x.Fail("signhist.other_image_untouched", i, kind, "a second image parsed before the history began now hashes to %x, before to %x; nothing was done to it", h, otherHash)
			return false
		}
		if b := other.Bytes(); !bytes.Equal(b, otherBytes) {
			x.Fail("signhist.other_image_untouched", i, kind, "a second image parsed before the history began now serialises to %s, before to %s; nothing was done to it", shortHex(b), shortHex(otherBytes))
			return false
		}
		return true
	}
	st := &shState{orig: orig, dirOff: pe0.CertDirOff}
	st.origData = orig[:len(orig)-int(pe0.CertSize)]
	st.refHash, err = refPEDigest(orig, true)
	if err != nil {
		harnessf("signhist: reference digest: %v", err)
	}
	for range ents0 {
		st.signers = append(st.signers, -1)
	}
	if c.Foreign != nil && len(ents0) == 1 {
		// the harness knows who signed the way another tool does
		st.signers[0] = c.Foreign.Key % poolSize
		st.nForeign = 1
	}
	x.Logf("image %s: %d bytes, %d sections, pe32+=%v, %d existing signature(s), len%%8=%d", c.Image.String(), len(orig), len(pe0.Sections), pe0.PE32Plus, len(ents0), len(orig)%8)
	if len(orig)%8 != 0 {
		x.Probe("unaligned_input")
	}
	if len(ents0) > 0 {
		x.Probe("resign_existing_table")
	}
	mainRd := &SimReader{data: orig}
	var medium io.ReaderAt = mainRd
	switch c.Reader {
	case "bytes":
		medium = bytes.NewReader(orig)
	case "sniffed":
		br := bytes.NewReader(orig)
		var magic [2]byte
		br.Read(magic[:]) // positional reads do not care where the sequential cursor is
		medium = br
		x.Probe("reader_already_read_from")
	case "seekable":
		medium = &SimReadSeeker{SimReader: &SimReader{data: orig}}
	case "eofdata":
		medium = &SimReader{data: orig, EOFWithData: true}
		x.Probe("reader_reports_eof_with_the_last_bytes")
	case "section":
		big := append(append(bytes.Repeat([]byte{0xCC}, 4096+len(orig)%97), orig...), bytes.Repeat([]byte{0xDD}, 333)...)
		medium = io.NewSectionReader(bytes.NewReader(big), int64(4096+len(orig)%97), int64(len(orig)))
		x.Probe("image_inside_a_larger_file")
	}
	bin, err := authenticode.Parse(medium)
	if err != nil {
		x.Fail("signhist.parse_well_formed", -1, "Parse", "well-formed image rejected: %v", err)
		return
	}
	if !shCheck(x, -1, "Parse", st, bin) {
		return
	}
	nsign, reparsedAfterSign := 0, false
	for i, op := range ops {
		if x.Failed() {
			return
		}
		x.Steps++
		var pv any
		func() {
			defer func() { pv = recover() }()
			switch op.Op {
			case "SignBoth":
				if other == nil || st2 == nil {
					return
				}
				pk, pk2 := Pool()[op.Key%poolSize], Pool()[op.Key2%poolSize]
				plane := NewPlane(nil)
				sched := NewSched(x, 2, op.Sw)
				plane.yield = sched.Yield
				// the media are yield points too while the two callers are at work (reads of one image interleave with the other's)
				if c.Reader == "" && op.Key2%2 == 0 {
					mainRd.p, otherRd.p = plane, plane
					defer func() { mainRd.p, otherRd.p = nil, nil }()
				}
				var err1, err2 error
				sched.Run([]func(){
					func() { _, err1 = bin.Sign(&SimSigner{inner: pk.Key, p: plane}, pk.Cert) },
					func() { _, err2 = other.Sign(&SimSigner{inner: pk2.Key, p: plane}, pk2.Cert) },
				})
				plane.yield = nil
				x.Logf("op %d SignBoth(k%d on this image, k%d on the second image; %d switches) -> err=%v / %v", i, op.Key, op.Key2, len(sched.Switches), err1, err2)
				if err1 != nil || err2 != nil {
					x.Fail("signhist.sign_succeeds", i, "SignBoth", "signing two well-formed images at the same time with healthy keys failed: %v / %v", err1, err2)
					return
				}
				st.signers = append(st.signers, op.Key%poolSize)
				st2.signers = append(st2.signers, op.Key2%poolSize)
				nsign++
				x.Probe("two_images_signed_at_the_same_time")
			case "Sign":
				pk := Pool()[op.Key%poolSize]
				var signer crypto.Signer = pk.Key
				if op.DelayMs > 0 {
					if time.Now().Add(time.Duration(op.DelayMs) * time.Millisecond).Before(simMaxInstant) {
						signer = &SimSigner{inner: pk.Key, p: NewPlane(nil), Delay: time.Duration(op.DelayMs) * time.Millisecond}
						x.Probe("slow_signing_device")
					}
				}
				sig, err := bin.Sign(signer, pk.Cert)
				x.Logf("op %d Sign(k%d) -> %d bytes err=%v", i, op.Key, len(sig), err)
				// the signature Sign hands back is the caller's copy: it is wiped here, the image keeps its own
				for k := range sig[:cap(sig)] {
					sig[:cap(sig)][k] = 0xEE
				}
				if err != nil {
					x.Fail("signhist.sign_succeeds", i, "Sign", "signing a well-formed image with a healthy key failed: %v", err)
					return
				}
				st.signers = append(st.signers, op.Key%poolSize)
				nsign++
				if nsign >= 2 {
					x.Probe("signed_twice")
				}
			case "Reparse", "ReparseViaOpen":
				var by []byte
				if op.Op == "Reparse" {
					by = bin.Bytes()
				} else {
					by, err = io.ReadAll(bin.Open())
					if err != nil {
						x.Fail("signhist.reparse", i, op.Op, "reading Open() failed: %v", err)
						return
					}
				}
				nb, err := authenticode.Parse(&SimReader{data: append([]byte(nil), by...)})
				x.Logf("op %d %s: %d bytes -> err=%v", i, op.Op, len(by), err)
				if err != nil {
					x.Fail("signhist.reparse", i, op.Op, "the library cannot re-parse its own output: %v", err)
					return
				}
				bin = nb
				if nsign > 0 {
					reparsedAfterSign = true
				}
			case "Verify":
				pk := Pool()[op.Key%poolSize]
				want := false
				for _, s := range st.signers {
					if s == pk.Idx {
						want = true
					}
				}
				ok, err := bin.Verify(pk.Cert)
				x.Logf("op %d Verify(k%d) -> %v err=%v (model: signers=%v)", i, op.Key, ok, err, st.signers)
				sig := map[string]string{"want": fmt.Sprint(want), "collision": fmt.Sprint(shCollides(st.signers, pk))}
				if want && !ok {
					x.Probe("verify_signer")
					x.Fail("signhist.verifies_for_every_signer", i, "Verify", "k%d signed this image (signers %v) but Verify returned (%v, %v)", op.Key, st.signers, ok, err)
					x.Viol.Sig = sig
					return
				}
				if !want && ok {
					x.Fail("signhist.verifies_for_no_other", i, "Verify", "k%d did not sign this image (signers %v) but Verify returned true", op.Key, st.signers)
					x.Viol.Sig = sig
					return
				}
				if want {
					x.Probe("verify_signer")
				} else {
					x.Probe("verify_non_signer")
					if shCollides(st.signers, pk) {
						x.Probe("verify_non_signer_colliding_id")
					}
				}
			case "Hash", "Signatures":
				// judged by shCheck below
				x.Logf("op %d %s", i, op.Op)
			default:
				harnessf("signhist: unknown op %q", op.Op)
			}
		}()
		if pv != nil {
			if he, ok := pv.(*HarnessError); ok {
				panic(he)
			}
			x.Fail("signhist.no_panic", i, op.Op, "panicked: %v", pv)
			return
		}
		if x.Failed() {
			return
		}
		if !shCheck(x, i, op.Op, st, bin) {
			return
		}
		if !bystander(i, op.Op) {
			return
		}
		x.State(h64(fmt.Sprint(st.signers), len(orig)%8))
	}
	x.Nontriv = nsign >= 1 && reparsedAfterSign
}

// shCollides: does some signer share issuer and serial with pk while being a different key?
func shCollides(signers []int, pk *PoolKey) bool {
	for _, s := range signers {
		if s >= 0 && s != pk.Idx && sameIssuerSerial(Pool()[s], pk) {
			return true
		}
	}
	return false
}

// shCheck is the per-step oracle over Bytes(), Hash() and Signatures().
func shCheck(x *X, i int, kind string, st *shState, bin *authenticode.PECOFFBinary) bool {
	fail := func(oracle, format string, a ...any) bool {
		x.Fail(oracle, i, kind, format, a...)
		return false
	}
	var out, h []byte
	var pv any
	var nsigs int
	var sigBlobs [][]byte
	var sigErr error
	func() {
		defer func() { pv = recover() }()
		out = bin.Bytes()
		h = bin.Hash(crypto.SHA256)
		sigs, err := bin.Signatures()
		sigErr = err
		nsigs = len(sigs)
		for _, s := range sigs {
			sigBlobs = append(sigBlobs, append([]byte(nil), s.Certificate...))
			// what Signatures() hands out is the caller's: it is wiped here (up to its capacity), and the image must not notice
			full := s.Certificate[:cap(s.Certificate)]
			for k := range full {
				full[k] = 0xEE
			}
		}
	}()
	if pv != nil {
		if he, ok := pv.(*HarnessError); ok {
			panic(he)
		}
		return fail("signhist.no_panic", "Bytes/Hash/Signatures panicked: %v", pv)
	}
	// (5) the digest never changes and is the specification digest
	if !bytes.Equal(h, st.refHash) {
		return fail("signhist.hash_constant", "Hash() = %x, specification digest of the (padded) original = %x", h, st.refHash)
	}
	if len(st.signers) == 0 {
		// never signed: the statement says nothing about the serialisation yet
		return true
	}
	// (1) original bytes preserved except the directory entry; zero padding to 8
	nd := len(st.origData)
	if len(out) < nd {
		return fail("signhist.original_bytes_kept", "output has %d bytes, the original data alone has %d", len(out), nd)
	}
	for p := 0; p < nd; p++ {
		if out[p] != st.origData[p] && (p < st.dirOff || p >= st.dirOff+8) {
			return fail("signhist.original_bytes_kept", "byte %#x changed from %#02x to %#02x (only the certificate-table directory entry at %#x may change)", p, st.origData[p], out[p], st.dirOff)
		}
	}
	pad := (8 - nd%8) % 8
	if len(out) < nd+pad {
		return fail("signhist.zero_padded_to_8", "output ends inside the padding")
	}
	for p := nd; p < nd+pad; p++ {
		if out[p] != 0 {
			return fail("signhist.zero_padded_to_8", "padding byte at %#x is %#02x", p, out[p])
		}
	}
	// (2) the directory entry spans the table exactly to end of file
	va := int(binary.LittleEndian.Uint32(out[st.dirOff:]))
	sz := int(binary.LittleEndian.Uint32(out[st.dirOff+4:]))
	if va != nd+pad {
		return fail("signhist.directory_entry", "certificate table address %#x, the padded image data ends at %#x", va, nd+pad)
	}
	if va%8 != 0 {
		return fail("signhist.directory_entry", "certificate table address %#x is not 8-byte aligned", va)
	}
	if va+sz != len(out) {
		return fail("signhist.directory_entry", "directory entry spans [%#x,%#x) but the file ends at %#x", va, va+sz, len(out))
	}
	// (3) the entries
	_, ents, err := refPECertTable(out)
	if err != nil {
		return fail("signhist.certificate_table", "%v", err)
	}
	if len(ents) != len(st.signers) {
		return fail("signhist.certificate_table", "table holds %d entries, the history produced %d", len(ents), len(st.signers))
	}
	outDigest, err := refPEDigest(out, false)
	if err != nil {
		return fail("signhist.certificate_table", "output is not a well-formed image: %v", err)
	}
	for k, en := range ents {
		if en.Off%8 != 0 {
			return fail("signhist.certificate_table", "entry %d starts at %#x, not 8-byte aligned", k, en.Off)
		}
		if en.Revision != 0x0200 || en.Type != 0x0002 {
			return fail("signhist.certificate_table", "entry %d: wRevision %#x wCertificateType %#x", k, en.Revision, en.Type)
		}
		raw := out[en.Off : en.Off+int(en.Length)]
		if k < len(st.entries) && !bytes.Equal(raw, st.entries[k]) {
			return fail("signhist.earlier_entries_kept", "entry %d changed after a later operation", k)
		}
		// (4) each blob is a SignedData over SpcIndirectDataContent carrying the digest of THIS file
		blob := en.Blob
		if st.signers[k] < 0 || k < st.nForeign {
			// other tools pad the blob to 8 bytes and count the padding in dwLength
			for n := 0; n < 7 && len(blob) > 0 && blob[len(blob)-1] == 0; n++ {
				if _, err := refCMSParse(blob); err == nil {
					break
				}
				blob = blob[:len(blob)-1]
			}
		}
		cms, err := refCMSParse(blob)
		if err != nil {
			return fail("signhist.entry_is_pkcs7", "entry %d (dwLength %d): %v", k, en.Length, err)
		}
		if cms.Bare {
			return fail("signhist.entry_is_pkcs7", "entry %d is a bare SignedData without ContentInfo", k)
		}
		if !cms.EContentType.Equal(oidSpcIndirect) || !cms.HasContent {
			return fail("signhist.entry_is_pkcs7", "entry %d: eContentType %v, content present %v", k, cms.EContentType, cms.HasContent)
		}
		alg, dig, err := refSpcDigest(cms.ContentOctet)
		if err != nil {
			return fail("signhist.entry_is_pkcs7", "entry %d: %v", k, err)
		}
		if !alg.Equal(oidSHA256) {
			if st.signers[k] < 0 {
				continue // a foreign signature may use another digest
			}
			return fail("signhist.embedded_digest", "entry %d: digest algorithm %v", k, alg)
		}
		if !bytes.Equal(dig, outDigest) {
			return fail("signhist.embedded_digest", "entry %d embeds digest %x, the specification digest of the output file is %x", k, dig, outDigest)
		}
		if s := st.signers[k]; s >= 0 {
			if err := refCMSVerify(cms, Pool()[s].Cert, nil); err != nil {
				return fail("signhist.entry_verifies_independently", "entry %d (signed by k%d): %v", k, s, err)
			}
		}
	}
	st.entries = st.entries[:0]
	for _, en := range ents {
		st.entries = append(st.entries, append([]byte(nil), out[en.Off:en.Off+int(en.Length)]...))
	}
	// (7) Signatures(): one element per entry, in order
	if sigErr != nil {
		return fail("signhist.signatures_listing", "Signatures() failed: %v", sigErr)
	}
	if nsigs != len(ents) {
		return fail("signhist.signatures_listing", "Signatures() lists %d, the table holds %d", nsigs, len(ents))
	}
	for k := range ents {
		if !bytes.Equal(sigBlobs[k], ents[k].Blob) {
			return fail("signhist.signatures_listing", "Signatures()[%d] differs from table entry %d", k, k)
		}
	}
	return true
}

// shForeignSigned signs an unsigned image the way another tool does: the library's own SpcIndirectDataContent (it carries
// the digest) re-signed by refCMSForeign with extra authenticated attributes, wrapped in a WIN_CERTIFICATE and appended
// behind the image data padded to 8 bytes; the directory entry is set by hand.
func shForeignSigned(orig []byte, f shForeign) []byte {
	pe0, ents0, err := refPECertTable(orig)
	if err != nil || len(ents0) != 0 {
		harnessf("signhist: foreign signing wants an unsigned well-formed image: %v", err)
	}
	pk := Pool()[f.Key%poolSize]
	bin, err := authenticode.Parse(bytes.NewReader(orig))
	if err != nil {
		panic(libraryFailure{fmt.Sprintf("parsing a well-formed unsigned image failed: %v", err)})
	}
	lib, err := bin.Sign(pk.Key, pk.Cert)
	if err != nil {
		panic(libraryFailure{fmt.Sprintf("signing a well-formed unsigned image with a healthy key failed: %v", err)})
	}
	like, err := refCMSParse(lib)
	if err != nil {
		harnessf("signhist: foreign signing: reference parse of the library's SignedData: %v", err)
	}
	blob := refCMSForeign(like, nil, pk, time.Now().UTC(), refForeignAttrs(f.Extra%4))
	data := append([]byte(nil), orig...)
	for len(data)%8 != 0 {
		data = append(data, 0)
	}
	body := append([]byte(nil), blob...)
	if f.PadInLen {
		for (8+len(body))%8 != 0 {
			body = append(body, 0)
		}
	}
	entry := binary.LittleEndian.AppendUint32(nil, uint32(8+len(body)))
	entry = binary.LittleEndian.AppendUint16(entry, 0x0200)
	entry = binary.LittleEndian.AppendUint16(entry, 0x0002)
	entry = append(entry, body...)
	for len(entry)%8 != 0 {
		if f.Filler {
			entry = append(entry, 0xA5)
		} else {
			entry = append(entry, 0)
		}
	}
	out := append(data, entry...)
	binary.LittleEndian.PutUint32(out[pe0.CertDirOff:], uint32(len(data)))
	binary.LittleEndian.PutUint32(out[pe0.CertDirOff+4:], uint32(len(entry)))
	return out
}

// libraryFailure: the code under test failed inside a set-up step of the harness (not a harness error).
type libraryFailure struct{ msg string }
