package sim

import (
	"bufio"
	"encoding/binary"
	"encoding/json"
	"fmt"
	"os"
	"runtime/debug"
	"sort"
	"strconv"
	"sync/atomic"
	"testing"
	"time"
)

// workerCfg is passed in the environment variable VERIF_WORKER as JSON.
type workerCfg struct {
	Mode    string   `json:"mode"` // plan | range | replay | gen | merge
	Engine  string   `json:"engine"`
	Seed    uint64   `json:"seed"`
	Tier    string   `json:"tier"`
	From    int      `json:"from"`
	To      int      `json:"to"`
	WAL     string   `json:"wal"`     // write-ahead file: 8 bytes, the run being executed
	Out     string   `json:"out"`     // prefix for hash-set files
	Trace   string   `json:"trace"`   // replay: trace file
	ShowLog bool     `json:"showlog"` // replay: print the event log
	Repeat  int      `json:"repeat"`  // replay: execute the trace up to this many times (free-running engines)
	HashLog string   `json:"hashlog"` // range: write "run loghash" lines (determinism self-test)
	Files   []string `json:"files"`   // merge
	Samples int      `json:"samples"`
}

type violLine struct {
	T      string     `json:"t"`
	Run    int        `json:"run"`
	Viol   *Violation `json:"violation"`
	Trace  *Trace     `json:"trace"`
	LogSHA string     `json:"loghash"`
}

type sample struct {
	Trace *Trace   `json:"trace"`
	Log   []string `json:"event_log_head,omitempty"`
}

type summaryLine struct {
	T          string         `json:"t"`
	From       int            `json:"from"`
	To         int            `json:"to"`
	Runs       int            `json:"runs"`
	Nontrivial int            `json:"nontrivial"`
	Violations int            `json:"violations"`
	Steps      int            `json:"steps"`
	Faults     map[string]int `json:"faults"`
	Probes     map[string]int `json:"probes"`
	SimFrom    int64          `json:"sim_from"`
	SimTo      int64          `json:"sim_to"`
	Samples    []sample       `json:"samples"`
	Files      []string       `json:"files"`
}

func emit(v any) {
	b, err := json.Marshal(v)
	if err != nil {
		panic(err)
	}
	os.Stdout.Write(append(append([]byte("@@ "), b...), '\n'))
}

// execGuard runs one trace. A panic that escapes the engine is either a
// harness defect (exit 2) or, when it comes from the library, a violation of
// the engine's property: the process would not have kept running.
func execGuard(e Engine, tr *Trace, x *X) {
	defer func() {
		if r := recover(); r != nil {
			if he, ok := r.(*HarnessError); ok {
				fmt.Fprintf(os.Stderr, "HARNESS-ERROR engine=%s run=%d: %s\n", tr.Engine, tr.Run, he.Msg)
				os.Exit(2)
			}
			x.Fail("process.panic", -1, "unknown", "panic escaped the operation: %v\n%s", r, trimStack(debug.Stack()))
		}
	}()
	e.Exec(tr, x)
	if x.Viol != nil && x.Nondet {
		x.Viol.Nondet = true
	}
}

func trimStack(b []byte) string {
	if len(b) > 1500 {
		b = b[:1500]
	}
	return string(b)
}

// watchdog: the run that is executing and when it started (real clock). A
// run that does not finish is reported on stderr and ends the process with
// status 4, so that one hung run cannot stall a whole batch.
var (
	wdRun   atomic.Int64
	wdSince atomic.Int64 // tick at which the current run started, 0 = idle
	wdTicks atomic.Int64 // advanced by the watchdog itself: it must not read time.Local (the harness assigns it)
)

func wdBegin(run int) {
	wdRun.Store(int64(run))
	wdSince.Store(wdTicks.Load() + 1)
}

func startWatchdog() {
	limit := int64(120)
	if v := os.Getenv("VERIF_RUN_TIMEOUT_S"); v != "" {
		if n, err := strconv.Atoi(v); err == nil && n > 0 {
			limit = int64(n)
		}
	}
	wdSince.Store(0)
	go func() {
		for {
			time.Sleep(500 * time.Millisecond)
			now := wdTicks.Add(1)
			since := wdSince.Load()
			if since != 0 && (now-since)/2 > limit {
				fmt.Fprintf(os.Stderr, "HANG run=%d did not finish within %ds\n", wdRun.Load(), limit)
				os.Exit(4)
			}
		}
	}()
}

func TestWorker(t *testing.T) {
	raw := os.Getenv("VERIF_WORKER")
	if raw == "" {
		t.Skip("VERIF_WORKER not set")
	}
	planT = t
	startWatchdog()
	var c workerCfg
	if err := json.Unmarshal([]byte(raw), &c); err != nil {
		fmt.Fprintf(os.Stderr, "HARNESS-ERROR bad VERIF_WORKER: %v\n", err)
		os.Exit(2)
	}
	if c.Tier == "" {
		c.Tier = "quick"
	}
	if c.Mode == "merge" {
		workerMerge(c)
		return
	}
	e := engines[c.Engine]
	if e == nil {
		fmt.Fprintf(os.Stderr, "HARNESS-ERROR unknown engine %q (have %v)\n", c.Engine, engineNames())
		os.Exit(2)
	}
	switch c.Mode {
	case "plan":
		emit(map[string]any{"t": "plan", "total": e.Plan(c.Seed, c.Tier), "property": e.Property()})
	case "gen":
		emit(map[string]any{"t": "trace", "trace": e.Gen(c.Seed, c.Tier, c.From)})
	case "replay":
		workerReplay(t, e, c)
	case "range":
		workerRange(t, e, c)
	default:
		fmt.Fprintf(os.Stderr, "HARNESS-ERROR unknown mode %q\n", c.Mode)
		os.Exit(2)
	}
}

func workerReplay(t *testing.T, e Engine, c workerCfg) {
	b, err := os.ReadFile(c.Trace)
	if err != nil {
		fmt.Fprintf(os.Stderr, "HARNESS-ERROR %v\n", err)
		os.Exit(2)
	}
	var tr Trace
	if err := json.Unmarshal(b, &tr); err != nil {
		fmt.Fprintf(os.Stderr, "HARNESS-ERROR bad trace: %v\n", err)
		os.Exit(2)
	}
	if c.WAL != "" {
		if f, err := os.OpenFile(c.WAL, os.O_CREATE|os.O_WRONLY, 0o644); err == nil {
			var w [8]byte
			binary.LittleEndian.PutUint64(w[:], uint64(tr.Run))
			f.WriteAt(w[:], 0)
			f.Close()
		}
	}
	// warm-up: runs of the same batch executed first in this process. A library that keeps
	// process-global state can make a run depend on the runs before it.
	for _, w := range tr.Warmup {
		wt := e.Gen(tr.Seed, tr.Tier, w)
		wx := newX(t, false)
		wdBegin(w)
		execGuard(e, wt, wx)
		wdSince.Store(0)
	}
	x := newX(t, c.ShowLog)
	for i := 0; i < max(1, c.Repeat); i++ {
		x = newX(t, c.ShowLog)
		wdBegin(tr.Run)
		execGuard(e, &tr, x)
		wdSince.Store(0)
		if x.Viol != nil {
			break
		}
	}
	out := map[string]any{"t": "replay", "violation": x.Viol, "loghash": x.LogHash(), "nontrivial": x.Nontriv,
		"faults": x.Faults, "probes": x.Probes, "steps": x.Steps}
	if c.ShowLog {
		out["event_log"] = x.lines
	}
	emit(out)
}

type u64set map[uint64]struct{}

func (s u64set) write(path string) error {
	ks := make([]uint64, 0, len(s))
	for k := range s {
		ks = append(ks, k)
	}
	sort.Slice(ks, func(i, j int) bool { return ks[i] < ks[j] })
	f, err := os.Create(path)
	if err != nil {
		return err
	}
	w := bufio.NewWriter(f)
	var b [8]byte
	for _, k := range ks {
		binary.LittleEndian.PutUint64(b[:], k)
		w.Write(b[:])
	}
	if err := w.Flush(); err != nil {
		return err
	}
	return f.Close()
}

func workerRange(t *testing.T, e Engine, c workerCfg) {
	var wal *os.File
	if c.WAL != "" {
		var err error
		wal, err = os.OpenFile(c.WAL, os.O_CREATE|os.O_WRONLY, 0o644)
		if err != nil {
			fmt.Fprintf(os.Stderr, "HARNESS-ERROR %v\n", err)
			os.Exit(2)
		}
		defer wal.Close()
	}
	var hl *bufio.Writer
	if c.HashLog != "" {
		f, err := os.Create(c.HashLog)
		if err != nil {
			fmt.Fprintf(os.Stderr, "HARNESS-ERROR %v\n", err)
			os.Exit(2)
		}
		defer f.Close()
		hl = bufio.NewWriter(f)
		defer hl.Flush()
	}
	sum := summaryLine{T: "summary", From: c.From, To: c.To, Faults: map[string]int{}, Probes: map[string]int{}}
	dkeys, states, scheds := u64set{}, u64set{}, u64set{}
	nsamples := c.Samples
	if nsamples == 0 {
		nsamples = 2
	}
	var w [8]byte
	for run := c.From; run < c.To; run++ {
		if wal != nil {
			binary.LittleEndian.PutUint64(w[:], uint64(run))
			wal.WriteAt(w[:], 0)
		}
		wdBegin(run)
		tr := e.Gen(c.Seed, c.Tier, run)
		x := newX(t, false)
		execGuard(e, tr, x)
		sum.Runs++
		sum.Steps += x.Steps
		for k, v := range x.Faults {
			sum.Faults[k] += v
		}
		for k, v := range x.Probes {
			sum.Probes[k] += v
		}
		for _, s := range x.States {
			states[s] = struct{}{}
		}
		if x.SchedKey != 0 {
			scheds[x.SchedKey] = struct{}{}
		}
		if x.SimFrom != 0 {
			if sum.SimFrom == 0 || x.SimFrom < sum.SimFrom {
				sum.SimFrom = x.SimFrom
			}
			if x.SimTo > sum.SimTo {
				sum.SimTo = x.SimTo
			}
		}
		lh := x.LogHash()
		if hl != nil {
			fmt.Fprintf(hl, "%d %s\n", run, lh)
		}
		if x.Nontriv {
			sum.Nontrivial++
			k := x.DKey
			if k == "" {
				k = lh
			}
			dkeys[strHash(k)] = struct{}{}
			if len(sum.Samples) < nsamples {
				x2 := newX(t, true)
				execGuard(e, tr, x2)
				head := x2.lines
				if len(head) > 40 {
					head = append(head[:40:40], fmt.Sprintf("… %d more events", len(x2.lines)-40))
				}
				sum.Samples = append(sum.Samples, sample{Trace: tr, Log: head})
			}
		}
		if x.Viol != nil {
			sum.Violations++
			tr.Violation = x.Viol
			emit(violLine{T: "violation", Run: run, Viol: x.Viol, Trace: tr, LogSHA: lh})
		}
	}
	wdSince.Store(0)
	if c.Out != "" {
		for _, p := range []struct {
			n string
			s u64set
		}{{"dkeys", dkeys}, {"states", states}, {"scheds", scheds}} {
			path := fmt.Sprintf("%s.%s.u64", c.Out, p.n)
			if err := p.s.write(path); err != nil {
				fmt.Fprintf(os.Stderr, "HARNESS-ERROR %v\n", err)
				os.Exit(2)
			}
			sum.Files = append(sum.Files, path)
		}
	}
	emit(sum)
}

// workerMerge counts the distinct 64-bit keys over a set of files.
func workerMerge(c workerCfg) {
	var all []uint64
	for _, p := range c.Files {
		b, err := os.ReadFile(p)
		if err != nil {
			fmt.Fprintf(os.Stderr, "HARNESS-ERROR %v\n", err)
			os.Exit(2)
		}
		for i := 0; i+8 <= len(b); i += 8 {
			all = append(all, binary.LittleEndian.Uint64(b[i:]))
		}
	}
	sort.Slice(all, func(i, j int) bool { return all[i] < all[j] })
	n := 0
	for i := range all {
		if i == 0 || all[i] != all[i-1] {
			n++
		}
	}
	emit(map[string]any{"t": "merge", "distinct": n})
}
