package sim

import (
	"bytes"
	"encoding/hex"
	"testing"
	"time"

	"github.com/foxboron/go-uefi/pkcs7"
)

// Cross-checks of the trusted reference models against third-party artefacts
// in the repository (run by ./selftest, not by the property checks).

func TestRefPEAgainstPinnedDigests(t *testing.T) {
	// constants from authenticode/checksum_test.go (computed by the authors with sbsign/pesign)
	for _, c := range []struct{ f, plain, padded string }{
		{"test.pecoff", "9f2b505ce20bc20c2ce7f7a33cb93ca97d1465735ce6821a6fc8e8c7b1e0e60a", "e7d74d2bc1287c17bf056e259ad7d2ca557e848b252509ae9956df0b14f69702"},
		{"HelloWorld.efi", "d2ae1f36ec9b40b55f60920a3f58ec902ebdc7c323e443412c751cdb3c42d3f3", "765600a03f44d9f954376dd5f4e5b5e86b2ca1a3d6308a005f95922b0ebe7c94"},
		{"HelloWorld.efi.signed", "765600a03f44d9f954376dd5f4e5b5e86b2ca1a3d6308a005f95922b0ebe7c94", "765600a03f44d9f954376dd5f4e5b5e86b2ca1a3d6308a005f95922b0ebe7c94"},
		{"linuxx64.efi.stub", "b9d3bcb414848ce11814ccb9fd98d95511e95fcc117c24e1517c9867761f251e", "cc09c6b98fc5bf619ce09388399c35c21a510855f5fd308de653a8cf868e01cc"},
	} {
		b := ImgSpec{Fixture: c.f}.Bytes()
		for _, pad := range []bool{false, true} {
			d, err := refPEDigest(b, pad)
			if err != nil {
				t.Fatalf("%s: %v", c.f, err)
			}
			want := c.plain
			if pad {
				want = c.padded
			}
			if hex.EncodeToString(d) != want {
				t.Errorf("%s pad=%v: refpe %x, pinned %s", c.f, pad, d, want)
			}
		}
	}
}

func TestRefCMSOnSbsignArtefacts(t *testing.T) {
	for _, f := range []string{"HelloWorld.efi.signed", "test.pecoff.signed"} {
		b := ImgSpec{Fixture: f}.Bytes()
		_, ents, err := refPECertTable(b)
		if err != nil || len(ents) == 0 {
			t.Fatalf("%s: %v (%d entries)", f, err, len(ents))
		}
		dg, _ := refPEDigest(b, false)
		for _, e := range ents {
			cms, err := refCMSParse(e.Blob)
			if err != nil {
				t.Fatalf("%s: %v", f, err)
			}
			_, d, err := refSpcDigest(cms.ContentOctet)
			if err != nil || !bytes.Equal(d, dg) {
				t.Errorf("%s: embedded digest %x, refpe %x (%v)", f, d, dg, err)
			}
			if len(cms.Certs) == 0 {
				t.Fatalf("%s: no embedded certificate", f)
			}
			if err := refCMSVerify(cms, cms.Certs[0], nil); err != nil {
				t.Errorf("%s: refcms rejects the sbsign signature: %v", f, err)
			}
		}
	}
}

func TestRefCMSOnSbvarsignArtefacts(t *testing.T) {
	for _, f := range []string{"PK.auth", "KEK.auth", "db.auth"} {
		b := fixture("repo", "auth", f)
		dw := int(uint32(b[16]) | uint32(b[17])<<8 | uint32(b[18])<<16 | uint32(b[19])<<24)
		cms, err := refCMSParse(b[40 : 16+dw])
		if err != nil {
			t.Fatalf("%s: %v", f, err)
		}
		if cms.HasContent || len(cms.Signers) != 1 {
			t.Errorf("%s: content=%v signers=%d", f, cms.HasContent, len(cms.Signers))
		}
	}
}

func TestRefESLOnFixtures(t *testing.T) {
	for _, f := range dbFixtures {
		raw := fixture("repo", "esl", f)
		if _, err := refESLDecode(raw); err != nil {
			if _, err2 := refESLDecode(raw[4:]); err2 != nil {
				t.Errorf("%s: %v / %v", f, err, err2)
			}
		}
	}
}

// The foreign-signer builder: what it writes is accepted by the independent verifier, by the library, and by openssl
// when that is installed; a different certificate is refused.
func TestRefForeignCMS(t *testing.T) {
	content := []byte("content signed once, verified many times")
	at := time.Date(2031, 5, 6, 7, 8, 9, 0, time.UTC)
	for _, ki := range []int{0, 8, 21, 22, 23} {
		pk := Pool()[ki]
		lib, err := pkcs7.SignPKCS7(pk.Key, pk.Cert, pkcs7.OIDData, content)
		if err != nil {
			t.Fatal(err)
		}
		like, err := refCMSParse(lib)
		if err != nil {
			t.Fatal(err)
		}
		for n := 0; n <= 3; n++ {
			blob := refCMSForeign(like, content, pk, at, refForeignAttrs(n))
			cms, err := refCMSParse(blob)
			if err != nil {
				t.Fatalf("k%d n=%d: reference parse: %v", ki, n, err)
			}
			if err := refCMSVerify(cms, pk.Cert, content); err != nil {
				t.Errorf("k%d n=%d: reference verify: %v", ki, n, err)
			}
			p7, err := pkcs7.ParsePKCS7(append([]byte(nil), blob...))
			if err != nil {
				t.Fatalf("k%d n=%d: library parse: %v", ki, n, err)
			}
			if ok, err := p7.Verify(pk.Cert); !ok || err != nil {
				t.Errorf("k%d n=%d: library verify: %v %v", ki, n, ok, err)
			}
			if ok, _ := p7.Verify(Pool()[7].Cert); ok {
				t.Errorf("k%d n=%d: library verifies for another certificate", ki, n)
			}
		}
	}
}
