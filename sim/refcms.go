package sim

import (
	"bytes"
	"crypto"
	"crypto/rsa"
	"crypto/sha256"
	_ "crypto/sha512"
	"crypto/x509"
	"encoding/asn1"
	"errors"
	"fmt"
	"math/big"
	"time"
)

// refcms: an independent PKCS#7 / CMS SignedData reader and verifier written
// from RFC 2315 section 9 and RFC 5652 section 5. It shares no code with the
// library's pkcs7 package (encoding/asn1 instead of cryptobyte, crypto/rsa
// instead of x509.CheckSignature).

var (
	oidSignedData    = asn1.ObjectIdentifier{1, 2, 840, 113549, 1, 7, 2}
	oidData          = asn1.ObjectIdentifier{1, 2, 840, 113549, 1, 7, 1}
	oidSHA256        = asn1.ObjectIdentifier{2, 16, 840, 1, 101, 3, 4, 2, 1}
	oidRSA           = asn1.ObjectIdentifier{1, 2, 840, 113549, 1, 1, 1}
	oidSHA256RSA     = asn1.ObjectIdentifier{1, 2, 840, 113549, 1, 1, 11}
	oidAttrCType     = asn1.ObjectIdentifier{1, 2, 840, 113549, 1, 9, 3}
	oidAttrDigest    = asn1.ObjectIdentifier{1, 2, 840, 113549, 1, 9, 4}
	oidAttrSignTime  = asn1.ObjectIdentifier{1, 2, 840, 113549, 1, 9, 5}
	oidSpcIndirect   = asn1.ObjectIdentifier{1, 3, 6, 1, 4, 1, 311, 2, 1, 4}
	oidSpcPEImageObj = asn1.ObjectIdentifier{1, 3, 6, 1, 4, 1, 311, 2, 1, 15}
)

// derChildren splits the content octets of a constructed value into its elements.
func derChildren(content []byte) ([]asn1.RawValue, error) {
	var out []asn1.RawValue
	rest := content
	for len(rest) > 0 {
		var rv asn1.RawValue
		var err error
		rest, err = asn1.Unmarshal(rest, &rv)
		if err != nil {
			return nil, err
		}
		out = append(out, rv)
	}
	return out, nil
}

func isUniv(rv asn1.RawValue, tag int) bool { return rv.Class == asn1.ClassUniversal && rv.Tag == tag }
func isCtx(rv asn1.RawValue, tag int) bool {
	return rv.Class == asn1.ClassContextSpecific && rv.Tag == tag
}

type RefSigner struct {
	IssuerRaw   []byte
	Serial      *big.Int
	DigestAlg   asn1.ObjectIdentifier
	SigAlg      asn1.ObjectIdentifier
	AttrsFull   []byte // the [0] IMPLICIT element as it appears in the blob, nil if absent
	Signature   []byte
	AttrCType   asn1.ObjectIdentifier
	AttrDigest  []byte
	AttrTime    time.Time
	HasAttrTime bool
}

type RefCMS struct {
	Bare         bool // no outer ContentInfo
	Version      int
	DigestAlgs   []asn1.ObjectIdentifier
	EContentType asn1.ObjectIdentifier
	HasContent   bool
	ContentFull  []byte // content of the [0] EXPLICIT wrapper: one complete DER element
	ContentOctet []byte // its content octets (what RFC 2315 9.3 digests)
	Certs        []*x509.Certificate
	Signers      []RefSigner
}

// refCMSParse parses a SignedData, with or without the outer ContentInfo.
func refCMSParse(blob []byte) (*RefCMS, error) {
	var top asn1.RawValue
	rest, err := asn1.Unmarshal(blob, &top)
	if err != nil {
		return nil, fmt.Errorf("outer element: %v", err)
	}
	if len(rest) != 0 {
		return nil, fmt.Errorf("%d trailing bytes after the outer element", len(rest))
	}
	if !isUniv(top, asn1.TagSequence) {
		return nil, errors.New("outer element is not a SEQUENCE")
	}
	kids, err := derChildren(top.Bytes)
	if err != nil || len(kids) == 0 {
		return nil, fmt.Errorf("outer SEQUENCE: %v", err)
	}
	out := &RefCMS{Bare: true}
	if isUniv(kids[0], asn1.TagOID) {
		// ContentInfo { contentType, [0] EXPLICIT content }
		out.Bare = false
		var oid asn1.ObjectIdentifier
		if _, err := asn1.Unmarshal(kids[0].FullBytes, &oid); err != nil {
			return nil, err
		}
		if !oid.Equal(oidSignedData) {
			return nil, fmt.Errorf("outer contentType %v is not signedData", oid)
		}
		if len(kids) != 2 || !isCtx(kids[1], 0) {
			return nil, errors.New("ContentInfo without [0] content")
		}
		var sd asn1.RawValue
		if r, err := asn1.Unmarshal(kids[1].Bytes, &sd); err != nil || len(r) != 0 || !isUniv(sd, asn1.TagSequence) {
			return nil, errors.New("ContentInfo content is not one SEQUENCE")
		}
		kids, err = derChildren(sd.Bytes)
		if err != nil {
			return nil, err
		}
	}
	// SignedData ::= SEQUENCE { version, digestAlgorithms SET, contentInfo, [0] certs OPT, [1] crls OPT, signerInfos SET }
	if len(kids) < 4 {
		return nil, fmt.Errorf("SignedData has %d elements", len(kids))
	}
	if _, err := asn1.Unmarshal(kids[0].FullBytes, &out.Version); err != nil {
		return nil, fmt.Errorf("version: %v", err)
	}
	if !isUniv(kids[1], asn1.TagSet) {
		return nil, errors.New("digestAlgorithms is not a SET")
	}
	algs, err := derChildren(kids[1].Bytes)
	if err != nil {
		return nil, err
	}
	for _, a := range algs {
		oid, err := algOID(a)
		if err != nil {
			return nil, err
		}
		out.DigestAlgs = append(out.DigestAlgs, oid)
	}
	if !isUniv(kids[2], asn1.TagSequence) {
		return nil, errors.New("contentInfo is not a SEQUENCE")
	}
	ci, err := derChildren(kids[2].Bytes)
	if err != nil || len(ci) == 0 {
		return nil, fmt.Errorf("contentInfo: %v", err)
	}
	if _, err := asn1.Unmarshal(ci[0].FullBytes, &out.EContentType); err != nil {
		return nil, fmt.Errorf("eContentType: %v", err)
	}
	if len(ci) > 1 {
		if !isCtx(ci[1], 0) || len(ci) > 2 {
			return nil, errors.New("malformed encapsulated content")
		}
		var inner asn1.RawValue
		if r, err := asn1.Unmarshal(ci[1].Bytes, &inner); err != nil || len(r) != 0 {
			return nil, errors.New("encapsulated content is not one element")
		}
		out.HasContent = true
		out.ContentFull = inner.FullBytes
		out.ContentOctet = inner.Bytes
	}
	i := 3
	if i < len(kids) && isCtx(kids[i], 0) {
		cs, err := x509.ParseCertificates(kids[i].Bytes)
		if err != nil {
			return nil, fmt.Errorf("certificates: %v", err)
		}
		out.Certs = cs
		i++
	}
	if i < len(kids) && isCtx(kids[i], 1) {
		i++
	}
	if i != len(kids)-1 || !isUniv(kids[i], asn1.TagSet) {
		return nil, errors.New("signerInfos missing or not last")
	}
	sis, err := derChildren(kids[i].Bytes)
	if err != nil {
		return nil, err
	}
	for _, si := range sis {
		s, err := parseSignerInfo(si)
		if err != nil {
			return nil, fmt.Errorf("signerInfo: %v", err)
		}
		out.Signers = append(out.Signers, *s)
	}
	return out, nil
}

func algOID(rv asn1.RawValue) (asn1.ObjectIdentifier, error) {
	if !isUniv(rv, asn1.TagSequence) {
		return nil, errors.New("AlgorithmIdentifier is not a SEQUENCE")
	}
	k, err := derChildren(rv.Bytes)
	if err != nil || len(k) == 0 {
		return nil, errors.New("empty AlgorithmIdentifier")
	}
	var oid asn1.ObjectIdentifier
	_, err = asn1.Unmarshal(k[0].FullBytes, &oid)
	return oid, err
}

func parseSignerInfo(rv asn1.RawValue) (*RefSigner, error) {
	if !isUniv(rv, asn1.TagSequence) {
		return nil, errors.New("not a SEQUENCE")
	}
	k, err := derChildren(rv.Bytes)
	if err != nil || len(k) < 5 {
		return nil, fmt.Errorf("%d elements: %v", len(k), err)
	}
	s := &RefSigner{}
	// k[0] version; k[1] issuerAndSerialNumber
	ias, err := derChildren(k[1].Bytes)
	if err != nil || len(ias) != 2 {
		return nil, errors.New("issuerAndSerialNumber")
	}
	s.IssuerRaw = ias[0].FullBytes
	s.Serial = new(big.Int)
	if _, err := asn1.Unmarshal(ias[1].FullBytes, &s.Serial); err != nil {
		return nil, fmt.Errorf("serial: %v", err)
	}
	if s.DigestAlg, err = algOID(k[2]); err != nil {
		return nil, err
	}
	i := 3
	if isCtx(k[i], 0) {
		s.AttrsFull = k[i].FullBytes
		attrs, err := derChildren(k[i].Bytes)
		if err != nil {
			return nil, fmt.Errorf("attributes: %v", err)
		}
		for _, a := range attrs {
			ak, err := derChildren(a.Bytes)
			if err != nil || len(ak) != 2 || !isUniv(ak[1], asn1.TagSet) {
				return nil, errors.New("malformed attribute")
			}
			var oid asn1.ObjectIdentifier
			if _, err := asn1.Unmarshal(ak[0].FullBytes, &oid); err != nil {
				return nil, err
			}
			vals, err := derChildren(ak[1].Bytes)
			if err != nil || len(vals) != 1 {
				return nil, fmt.Errorf("attribute %v does not have exactly one value", oid)
			}
			switch {
			case oid.Equal(oidAttrCType):
				if _, err := asn1.Unmarshal(vals[0].FullBytes, &s.AttrCType); err != nil {
					return nil, err
				}
			case oid.Equal(oidAttrDigest):
				if _, err := asn1.Unmarshal(vals[0].FullBytes, &s.AttrDigest); err != nil {
					return nil, err
				}
			case oid.Equal(oidAttrSignTime):
				if _, err := asn1.Unmarshal(vals[0].FullBytes, &s.AttrTime); err != nil {
					return nil, fmt.Errorf("signingTime: %v", err)
				}
				s.HasAttrTime = true
			}
		}
		i++
	}
	if i+1 >= len(k) {
		return nil, errors.New("truncated signerInfo")
	}
	if s.SigAlg, err = algOID(k[i]); err != nil {
		return nil, err
	}
	if _, err := asn1.Unmarshal(k[i+1].FullBytes, &s.Signature); err != nil {
		return nil, fmt.Errorf("encryptedDigest: %v", err)
	}
	return s, nil
}

// refCMSVerify decides whether the SignedData carries a valid SHA-256/RSA
// signature by the holder of cert over the content: the encapsulated content
// when present, `detached` otherwise. The signer is found by issuer and
// serial number; if several signer infos carry that identifier, one valid
// signature suffices.
func refCMSVerify(c *RefCMS, cert *x509.Certificate, detached []byte) error {
	pub, ok := cert.PublicKey.(*rsa.PublicKey)
	if !ok {
		return errors.New("certificate does not hold an RSA key")
	}
	var content []byte
	if c.HasContent {
		content = c.ContentOctet
	} else {
		content = detached
	}
	cd := sha256.Sum256(content)
	var last error = errors.New("no signerInfo names the certificate (issuer and serial number)")
	for _, s := range c.Signers {
		if !bytes.Equal(s.IssuerRaw, cert.RawIssuer) || s.Serial.Cmp(cert.SerialNumber) != 0 {
			continue
		}
		if !s.DigestAlg.Equal(oidSHA256) {
			last = fmt.Errorf("digest algorithm %v is not SHA-256", s.DigestAlg)
			continue
		}
		if !s.SigAlg.Equal(oidRSA) && !s.SigAlg.Equal(oidSHA256RSA) {
			last = fmt.Errorf("signature algorithm %v is not RSA", s.SigAlg)
			continue
		}
		var signed [32]byte
		if s.AttrsFull != nil {
			if !bytes.Equal(s.AttrDigest, cd[:]) {
				last = errors.New("messageDigest attribute does not equal the SHA-256 of the content")
				continue
			}
			if !s.AttrCType.Equal(c.EContentType) {
				last = fmt.Errorf("contentType attribute %v differs from eContentType %v", s.AttrCType, c.EContentType)
				continue
			}
			// signature is over the DER of the attributes with the SET OF tag
			der := append([]byte{0x31}, s.AttrsFull[1:]...)
			signed = sha256.Sum256(der)
		} else {
			signed = cd
		}
		if err := rsa.VerifyPKCS1v15(pub, crypto.SHA256, signed[:], s.Signature); err != nil {
			last = fmt.Errorf("RSA verification failed: %v", err)
			continue
		}
		return nil
	}
	return last
}

// refCMSStrictTime is the additional rule of verifiers that are strict about time (go.mozilla.org/pkcs7 is one):
// a signingTime attribute, when the signer that names cert carries one, has to lie inside the validity window of
// that certificate.
func refCMSStrictTime(c *RefCMS, cert *x509.Certificate) error {
	for _, s := range c.Signers {
		if !bytes.Equal(s.IssuerRaw, cert.RawIssuer) || s.Serial.Cmp(cert.SerialNumber) != 0 || !s.HasAttrTime {
			continue
		}
		if s.AttrTime.Before(cert.NotBefore) || s.AttrTime.After(cert.NotAfter) {
			return fmt.Errorf("signingTime %s is outside the validity of the signer certificate (%s .. %s)", s.AttrTime.UTC().Format(time.RFC3339),
				cert.NotBefore.UTC().Format(time.RFC3339), cert.NotAfter.UTC().Format(time.RFC3339))
		}
	}
	return nil
}

// refSpcDigest extracts (digest algorithm, digest) from the content octets of
// an SpcIndirectDataContent.
func refSpcDigest(contentOctets []byte) (asn1.ObjectIdentifier, []byte, error) {
	k, err := derChildren(contentOctets)
	if err != nil || len(k) != 2 {
		return nil, nil, fmt.Errorf("SpcIndirectDataContent has %d elements: %v", len(k), err)
	}
	// k[0] SpcAttributeTypeAndOptionalValue, k[1] DigestInfo
	dk, err := derChildren(k[1].Bytes)
	if err != nil || len(dk) != 2 {
		return nil, nil, errors.New("malformed DigestInfo")
	}
	oid, err := algOID(dk[0])
	if err != nil {
		return nil, nil, err
	}
	var dig []byte
	if _, err := asn1.Unmarshal(dk[1].FullBytes, &dig); err != nil {
		return nil, nil, err
	}
	return oid, dig, nil
}

// ---- a foreign signer: SignedData as other tools write it ----

func derTLV(class, tag int, compound bool, content []byte) []byte {
	b, err := asn1.Marshal(asn1.RawValue{Class: class, Tag: tag, IsCompound: compound, Bytes: content})
	if err != nil {
		harnessf("der: %v", err)
	}
	return b
}

func derCat(parts ...[]byte) []byte {
	var out []byte
	for _, p := range parts {
		out = append(out, p...)
	}
	return out
}

func derSeq(parts ...[]byte) []byte {
	return derTLV(asn1.ClassUniversal, asn1.TagSequence, true, derCat(parts...))
}
func derSet(parts ...[]byte) []byte {
	return derTLV(asn1.ClassUniversal, asn1.TagSet, true, derCat(parts...))
}
func derAny(v any) []byte {
	b, err := asn1.Marshal(v)
	if err != nil {
		harnessf("der: %v", err)
	}
	return b
}

var (
	oidSpcSpOpusInfo    = asn1.ObjectIdentifier{1, 3, 6, 1, 4, 1, 311, 2, 1, 12}
	oidSpcStatementType = asn1.ObjectIdentifier{1, 3, 6, 1, 4, 1, 311, 2, 1, 11}
	oidSpcIndividual    = asn1.ObjectIdentifier{1, 3, 6, 1, 4, 1, 311, 2, 1, 21}
	oidSMIMECaps        = asn1.ObjectIdentifier{1, 2, 840, 113549, 1, 9, 15}
)

// refForeignAttrs are authenticated attributes other signers add besides contentType, signingTime and messageDigest:
// osslsigncode's SpcSpOpusInfo and SpcStatementType, OpenSSL's S/MIME capabilities.
func refForeignAttrs(n int) [][]byte {
	all := [][]byte{
		derSeq(derAny(oidSpcSpOpusInfo), derSet(derSeq())),
		derSeq(derAny(oidSpcStatementType), derSet(derSeq(derAny(oidSpcIndividual)))),
		derSeq(derAny(oidSMIMECaps), derSet(derSeq(derSeq(derAny(asn1.ObjectIdentifier{2, 16, 840, 1, 101, 3, 4, 1, 42})), derSeq(derAny(asn1.ObjectIdentifier{1, 2, 840, 113549, 3, 7}))))),
	}
	return all[:n]
}

// refCMSForeign builds a ContentInfo/SignedData over the encapsulated content of `like` (or, when `like` is detached, over `detached`) (a SignedData some other signer
// produced: its eContentType and content are taken over unchanged), signed by pk at instant `at`, with the signed
// attributes contentType, signingTime, messageDigest followed by `extra` (complete Attribute elements). Written from
// RFC 2315 section 9; shares nothing with the library's writer.
func refCMSForeign(like *RefCMS, detached []byte, pk *PoolKey, at time.Time, extra [][]byte) []byte {
	return refCMSForeignAlg(like, detached, pk, at, extra, crypto.SHA256)
}

// refCMSForeignAlg: the same with another digest algorithm (SHA-384, SHA-512) throughout.
func refCMSForeignAlg(like *RefCMS, detached []byte, pk *PoolKey, at time.Time, extra [][]byte, alg crypto.Hash) []byte {
	sum := func(b []byte) []byte {
		h := alg.New()
		h.Write(b)
		return h.Sum(nil)
	}
	oid := map[crypto.Hash]asn1.ObjectIdentifier{crypto.SHA256: oidSHA256, crypto.SHA384: {2, 16, 840, 1, 101, 3, 4, 2, 2}, crypto.SHA512: {2, 16, 840, 1, 101, 3, 4, 2, 3}}[alg]
	md := sum(detached)
	if like.HasContent {
		md = sum(like.ContentOctet)
	}
	algSHA := derSeq(derAny(oid), derTLV(asn1.ClassUniversal, asn1.TagNull, false, nil))
	algRSA := derSeq(derAny(oidRSA), derTLV(asn1.ClassUniversal, asn1.TagNull, false, nil))
	utc := derTLV(asn1.ClassUniversal, asn1.TagUTCTime, false, []byte(at.UTC().Format("060102150405Z")))
	attrs := [][]byte{
		derSeq(derAny(oidAttrCType), derSet(derAny(like.EContentType))),
		derSeq(derAny(oidAttrSignTime), derSet(utc)),
		derSeq(derAny(oidAttrDigest), derSet(derAny(md))),
	}
	attrs = append(attrs, extra...)
	content := derCat(attrs...)
	signedOver := sum(derTLV(asn1.ClassUniversal, asn1.TagSet, true, content))
	sig, err := rsa.SignPKCS1v15(nil, pk.Key, alg, signedOver)
	if err != nil {
		harnessf("refCMSForeign: %v", err)
	}
	si := derSeq(derAny(1), derSeq(pk.Cert.RawIssuer, derAny(pk.Cert.SerialNumber)), algSHA,
		derTLV(asn1.ClassContextSpecific, 0, true, content), algRSA, derAny(sig))
	ci := derSeq(derAny(like.EContentType))
	if like.HasContent {
		ci = derSeq(derAny(like.EContentType), derTLV(asn1.ClassContextSpecific, 0, true, like.ContentFull))
	}
	sd := derSeq(derAny(1), derSet(algSHA), ci, derTLV(asn1.ClassContextSpecific, 0, true, pk.CertDER), derSet(si))
	return derSeq(derAny(oidSignedData), derTLV(asn1.ClassContextSpecific, 0, true, sd))
}
