package sim

import (
	"crypto"
	"crypto/rsa"
	"crypto/x509"
	"encoding/pem"
	"fmt"
	"os"
	"path/filepath"
	"sync"
)

// verifRoot is where the committed fixtures live. Checks run with cwd=/verif;
// background runs use a snapshot, so the root is configurable.
func verifRoot() string {
	if r := os.Getenv("VERIF_ROOT"); r != "" {
		return r
	}
	return "/verif"
}

// PoolKey is one member of the fixed key/certificate pool.
type PoolKey struct {
	Idx     int
	Key     *rsa.PrivateKey
	Cert    *x509.Certificate
	CertPEM []byte
	CertDER []byte
}

var (
	poolOnce sync.Once
	pool     []*PoolKey
)

const poolSize = 29

// poolAll counts the keys beyond the general pool as well: k19 (self-signed) and k20 (CA-issued) have validity
// windows that begin and end inside the simulated time span (2030-06-15T12:00Z..2031-06-15T12:00Z and the year 2020).
// Only the engines that reason about the clock use them.
const poolAll = poolSize

// Pool layout (see tools/genkeys): 0,1 plain RSA-2048; 2 RSA-3072 with a
// high-bit serial; 3 RSA-4096 with leading-zero serial; 4 shares issuer AND
// serial with 0; 5 shares the serial of 1 under another issuer; 6 shares the
// issuer of 1 with another serial; 7 has a longer certificate; 8 and 9 are leaf
// certificates issued by a separate CA (issuer != subject), same issuer,
// different serials; 10..17 are further leaves of that CA over k8's key whose
// certificate lengths are consecutive (796..803 bytes), so that signature blobs
// of every length modulo 8 occur; 18 carries a 70000-byte extension (SignedData
// beyond 65535 bytes); 19, 20 have short validity windows (see poolAll); 21..23 are self-signed certificates whose
// distinguished names are encoded the way other tools encode them (UTF8String values with CN before O; an emailAddress
// and a domainComponent attribute; a multi-valued RDN), so that re-encoding the parsed name does not give the same bytes; 24 and 25 are
// RSA keys of 2049 and 2047 bits (modulus length not a multiple of 8); 26 and 27 are certificates issued with SHA-384 and SHA-512; 28 has serial number 0.
func Pool() []*PoolKey {
	poolOnce.Do(func() {
		dir := filepath.Join(verifRoot(), "fixtures", "keys")
		for i := 0; i < poolAll; i++ {
			kb := mustRead(filepath.Join(dir, fmt.Sprintf("k%d.key.pem", i)))
			cb := mustRead(filepath.Join(dir, fmt.Sprintf("k%d.cert.pem", i)))
			kblk, _ := pem.Decode(kb)
			cblk, _ := pem.Decode(cb)
			if kblk == nil || cblk == nil {
				harnessf("fixture k%d is not PEM", i)
			}
			k, err := x509.ParsePKCS8PrivateKey(kblk.Bytes)
			if err != nil {
				harnessf("fixture key %d: %v", i, err)
			}
			c, err := x509.ParseCertificate(cblk.Bytes)
			if err != nil {
				harnessf("fixture cert %d: %v", i, err)
			}
			pool = append(pool, &PoolKey{Idx: i, Key: k.(*rsa.PrivateKey), Cert: c, CertPEM: cb, CertDER: cblk.Bytes})
		}
	})
	return pool
}

// sameIssuerSerial reports whether two pool certificates collide on the
// identifier PKCS#7 uses to name a signer.
func sameIssuerSerial(a, b *PoolKey) bool {
	return string(a.Cert.RawIssuer) == string(b.Cert.RawIssuer) && a.Cert.SerialNumber.Cmp(b.Cert.SerialNumber) == 0
}

func mustRead(p string) []byte {
	b, err := os.ReadFile(p)
	if err != nil {
		harnessf("fixture: %v", err)
	}
	return b
}

func fixture(parts ...string) []byte {
	return mustRead(filepath.Join(append([]string{verifRoot(), "fixtures"}, parts...)...))
}

var _ crypto.Signer = (*rsa.PrivateKey)(nil)
