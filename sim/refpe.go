package sim

import (
	"crypto/sha256"
	"encoding/binary"
	"fmt"
	"sort"
)

// refpe: a hand-written PE/COFF header walker (no debug/pe) and the
// Authenticode PE image hash transcribed from "Windows Authenticode Portable
// Executable Signature Format", section "Calculating the PE Image Hash",
// steps 1-15, including the literal SUM_OF_BYTES_HASHED rule.

type RefSection struct {
	Ptr  uint32 // PointerToRawData
	Size uint32 // SizeOfRawData
}

type RefPE struct {
	Lfanew        int
	OptOff        int // start of the optional header
	PE32Plus      bool
	ChecksumOff   int // 4 bytes
	CertDirOff    int // 8 bytes: the Certificate Table data-directory entry
	NumDirs       int
	SizeOfHeaders int
	Sections      []RefSection
	CertVA        uint32
	CertSize      uint32
	FileSize      int
}

func u16(b []byte, o int) uint16 { return binary.LittleEndian.Uint16(b[o:]) }
func u32(b []byte, o int) uint32 { return binary.LittleEndian.Uint32(b[o:]) }

// refPEParse walks the headers of a well-formed image.
func refPEParse(b []byte) (*RefPE, error) {
	if len(b) < 0x40 || b[0] != 'M' || b[1] != 'Z' {
		return nil, fmt.Errorf("no MZ header")
	}
	p := &RefPE{FileSize: len(b)}
	p.Lfanew = int(u32(b, 0x3c))
	if p.Lfanew+24 > len(b) || string(b[p.Lfanew:p.Lfanew+4]) != "PE\x00\x00" {
		return nil, fmt.Errorf("no PE signature at %#x", p.Lfanew)
	}
	coff := p.Lfanew + 4
	nsec := int(u16(b, coff+2))
	optSize := int(u16(b, coff+16))
	p.OptOff = coff + 20
	if p.OptOff+optSize > len(b) {
		return nil, fmt.Errorf("optional header exceeds file")
	}
	var ddOff int
	switch u16(b, p.OptOff) {
	case 0x10b:
		ddOff = 96
		p.NumDirs = int(u32(b, p.OptOff+92))
	case 0x20b:
		p.PE32Plus = true
		ddOff = 112
		p.NumDirs = int(u32(b, p.OptOff+108))
	default:
		return nil, fmt.Errorf("bad optional header magic %#x", u16(b, p.OptOff))
	}
	p.ChecksumOff = p.OptOff + 64
	p.SizeOfHeaders = int(u32(b, p.OptOff+60))
	if p.NumDirs < 5 || ddOff+p.NumDirs*8 > optSize {
		return nil, fmt.Errorf("no certificate-table directory entry (NumberOfRvaAndSizes=%d)", p.NumDirs)
	}
	p.CertDirOff = p.OptOff + ddOff + 4*8
	p.CertVA = u32(b, p.CertDirOff)
	p.CertSize = u32(b, p.CertDirOff+4)
	st := p.OptOff + optSize
	if st+nsec*40 > len(b) {
		return nil, fmt.Errorf("section table exceeds file")
	}
	for i := 0; i < nsec; i++ {
		o := st + i*40
		p.Sections = append(p.Sections, RefSection{Size: u32(b, o+16), Ptr: u32(b, o+20)})
	}
	if p.SizeOfHeaders > len(b) {
		return nil, fmt.Errorf("SizeOfHeaders exceeds file")
	}
	return p, nil
}

// refPEDigest is the Authenticode SHA-256 image hash of file b. With pad set,
// the hashed data is extended with zeros to a multiple of 8 of the file size
// (what a signer does before appending the certificate table).
func refPEDigest(b []byte, pad bool) ([]byte, error) {
	p, err := refPEParse(b)
	if err != nil {
		return nil, err
	}
	h := sha256.New()
	// 3. header up to the checksum
	h.Write(b[:p.ChecksumOff])
	// 4./5. skip the checksum, hash up to the Certificate Table entry
	h.Write(b[p.ChecksumOff+4 : p.CertDirOff])
	// 6./7. skip the entry, hash to the end of the headers
	h.Write(b[p.CertDirOff+8 : p.SizeOfHeaders])
	// 8.
	sum := p.SizeOfHeaders
	// 9./10. sections by PointerToRawData, without the empty ones
	secs := append([]RefSection(nil), p.Sections...)
	sort.SliceStable(secs, func(i, j int) bool { return secs[i].Ptr < secs[j].Ptr })
	for _, s := range secs {
		if s.Size == 0 {
			continue
		}
		if int(s.Ptr)+int(s.Size) > len(b) {
			return nil, fmt.Errorf("section [%#x,+%#x) exceeds file", s.Ptr, s.Size)
		}
		// 11./12.
		h.Write(b[s.Ptr : s.Ptr+s.Size])
		sum += int(s.Size)
	}
	// 14. extra data: begins at SUM_OF_BYTES_HASHED, length FILE_SIZE - (cert table size + SUM)
	if p.FileSize > sum {
		n := p.FileSize - int(p.CertSize) - sum
		if n < 0 {
			return nil, fmt.Errorf("certificate table larger than the data after SUM_OF_BYTES_HASHED")
		}
		h.Write(b[sum : sum+n])
	}
	if pad {
		if r := p.FileSize % 8; r != 0 {
			h.Write(make([]byte, 8-r))
		}
	}
	return h.Sum(nil), nil
}

// RefCertEntry is one WIN_CERTIFICATE of an attribute certificate table.
type RefCertEntry struct {
	Off      int // file offset of the entry
	Length   uint32
	Revision uint16
	Type     uint16
	Blob     []byte
}

// refPECertTable walks the attribute certificate table the directory entry
// points at and checks the structural rules of the PE format: the entry spans
// exactly to end of file, starts 8-aligned, every entry starts 8-aligned and
// the padded entries tile the table exactly.
func refPECertTable(b []byte) (*RefPE, []RefCertEntry, error) {
	p, err := refPEParse(b)
	if err != nil {
		return nil, nil, err
	}
	if p.CertSize == 0 { // (an address without a size is no table: a stripped signature may leave one behind)
		return p, nil, nil
	}
	va, sz := int(p.CertVA), int(p.CertSize)
	if va%8 != 0 {
		return p, nil, fmt.Errorf("certificate table offset %#x is not 8-byte aligned", va)
	}
	if va+sz != len(b) {
		return p, nil, fmt.Errorf("directory entry spans [%#x,%#x) but the file ends at %#x", va, va+sz, len(b))
	}
	if va < p.SizeOfHeaders {
		return p, nil, fmt.Errorf("certificate table inside the headers")
	}
	var out []RefCertEntry
	off := va
	for off < len(b) {
		if len(b)-off < 8 {
			return p, out, fmt.Errorf("%d stray bytes at the end of the certificate table", len(b)-off)
		}
		e := RefCertEntry{Off: off, Length: u32(b, off), Revision: u16(b, off+4), Type: u16(b, off+6)}
		if e.Length < 8 || off+int(e.Length) > len(b) {
			return p, out, fmt.Errorf("entry at %#x: dwLength %d out of range", off, e.Length)
		}
		e.Blob = b[off+8 : off+int(e.Length)]
		out = append(out, e)
		next := off + (int(e.Length)+7)&^7
		if next > len(b) {
			return p, out, fmt.Errorf("entry at %#x: padding to 8 bytes is missing (%d bytes short)", off, next-len(b))
		}
		// the content of the inter-entry padding is not constrained by the property
		off = next
	}
	return p, out, nil
}

// refHashedBytes returns the byte string the Authenticode digest is computed
// over (steps 3-14, padded to 8), for callers that feed it to a verifier.
func refHashedBytes(b []byte) []byte {
	p, err := refPEParse(b)
	if err != nil {
		harnessf("refHashedBytes: %v", err)
	}
	var out []byte
	out = append(out, b[:p.ChecksumOff]...)
	out = append(out, b[p.ChecksumOff+4:p.CertDirOff]...)
	out = append(out, b[p.CertDirOff+8:p.SizeOfHeaders]...)
	sum := p.SizeOfHeaders
	secs := append([]RefSection(nil), p.Sections...)
	sort.SliceStable(secs, func(i, j int) bool { return secs[i].Ptr < secs[j].Ptr })
	for _, s := range secs {
		if s.Size == 0 {
			continue
		}
		out = append(out, b[s.Ptr:s.Ptr+s.Size]...)
		sum += int(s.Size)
	}
	if p.FileSize > sum {
		out = append(out, b[sum:p.FileSize-int(p.CertSize)]...)
	}
	if r := p.FileSize % 8; r != 0 {
		out = append(out, make([]byte, 8-r)...)
	}
	return out
}
