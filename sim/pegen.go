package sim

import (
	"encoding/binary"
	"fmt"
	"path/filepath"
)

// pegen: generator of well-formed PE32 / PE32+ images covering the layout
// dimensions the properties quantify over.

type PESecSpec struct {
	Size     int  `json:"size"`           // SizeOfRawData (0 = empty section)
	Gap      int  `json:"gap,omitempty"`  // bytes left unused in the file before this section's data
	FilePos  int  `json:"pos"`            // rank of the section's data in file order
	ZeroPtr  bool `json:"zptr,omitempty"` // empty section with PointerToRawData = 0
	VirtSize int  `json:"vsize,omitempty"`
}

type PESpec struct {
	PE32Plus bool        `json:"pe32plus"`
	Lfanew   int         `json:"lfanew"`
	NumDirs  int         `json:"ndirs"`
	Slack    int         `json:"slack"` // SizeOfHeaders beyond the end of the section table
	Secs     []PESecSpec `json:"secs"`
	Trailing int         `json:"trailing"`
	Fill     uint64      `json:"fill"`
	Aligned  int         `json:"aligned,omitempty"` // a boundary of the hashed ranges was moved onto a multiple of this
	// StaleVA: the certificate-table directory entry of the unsigned image has Size 0 but an address left over from an
	// earlier life of the file (a stripped signature): still "no certificate table"
	StaleVA uint32 `json:"stale_va,omitempty"`
}

// ImgSpec names an image inside a trace.
type ImgSpec struct {
	Fixture string  `json:"fixture,omitempty"`
	Gen     *PESpec `json:"gen,omitempty"`
}

func (s ImgSpec) String() string {
	if s.Fixture != "" {
		return s.Fixture
	}
	g := s.Gen
	return fmt.Sprintf("gen(%v,lfanew=%#x,dirs=%d,slack=%d,secs=%d,trail=%d,fill=%x)", g.PE32Plus, g.Lfanew, g.NumDirs, g.Slack, len(g.Secs), g.Trailing, g.Fill)
}

func (s ImgSpec) Bytes() []byte {
	if s.Fixture != "" {
		return mustRead(filepath.Join(verifRoot(), "fixtures", "repo", "binary", filepath.Base(s.Fixture)))
	}
	if s.Gen == nil {
		harnessf("empty image spec")
	}
	return buildPE(s.Gen)
}

// genPESpec draws a layout.
func genPESpec(r *R) *PESpec {
	s := &PESpec{
		PE32Plus: r.Chance(2, 3),
		Lfanew:   0x40 + 8*r.Intn(0x39), // 0x40 … 0x200
		NumDirs:  Pick(r, []int{5, 6, 10, 16, 16, 16}),
		Fill:     r.U64(),
	}
	switch r.Intn(4) {
	case 0:
		s.Slack = 0
	case 1:
		s.Slack = r.Intn(64)
	default:
		s.Slack = -1 // align SizeOfHeaders up to 0x200
	}
	n := Pick(r, []int{0, 1, 1, 2, 2, 3, 3, 4, 5, 6})
	perm := r.Perm(n)
	if r.Chance(1, 2) { // header order == file order
		for i := range perm {
			perm[i] = i
		}
	}
	for i := 0; i < n; i++ {
		sec := PESecSpec{FilePos: perm[i]}
		switch r.Intn(8) {
		case 0:
			sec.Size = 0
			sec.ZeroPtr = r.Bool()
		case 1:
			sec.Size = r.Range(1, 40) // odd sizes
		case 2:
			sec.Size = 512 * r.Range(1, 8)
		default:
			sec.Size = r.Range(1, 3000)
		}
		if r.Chance(1, 4) {
			sec.Gap = r.Range(1, 64)
		}
		sec.VirtSize = sec.Size + r.Intn(32)
		s.Secs = append(s.Secs, sec)
	}
	if r.Chance(1, 2) {
		s.Trailing = r.Range(1, 64)
	}
	if r.Chance(1, 5) {
		alignPESpec(r, s)
	}
	if sr := r.Fork("stale"); sr.Chance(1, 10) {
		s.StaleVA = uint32(Pick(sr, []int{8, 0x200, 0x1000, 0x7ff8, 0xfffffff8}))
	}
	return s
}

// alignPESpec moves one boundary between the hashed ranges of the image (the CheckSum field, the certificate-table
// directory entry, the end of the headers, the end of a section, the end of the file) onto a round offset of the hashed
// byte stream — where the block-wise readers of the standard library (512 B, 4 KiB, 32 KiB buffers) start their reads.
func alignPESpec(r *R, s *PESpec) {
	T := Pick(r, []int{512, 4096, 8192, 32768, 32768, 65536})
	optBase := 96
	if s.PE32Plus {
		optBase = 112
	}
	switch r.Intn(5) {
	case 0: // CheckSum at stream offset T (nothing is skipped before it)
		if T-88 >= 0x40 {
			s.Lfanew = T - 88
		}
	case 1: // directory entry 4 at stream offset T (the four CheckSum bytes are skipped before it)
		if l := T + 4 - 24 - optBase - 32; l >= 0x40 {
			s.Lfanew = l
		}
	case 2: // end of the headers at stream offset T (12 bytes skipped before it)
		hdrEnd := s.Lfanew + 24 + optBase + 8*s.NumDirs + 40*len(s.Secs)
		if T+12 >= hdrEnd {
			s.Slack = T + 12 - hdrEnd
		}
	case 3: // end of the first section in file order at stream offset k*T
		for i := range s.Secs {
			if s.Secs[i].FilePos == 0 {
				hdrEnd := s.Lfanew + 24 + optBase + 8*s.NumDirs + 40*len(s.Secs)
				soh := hdrEnd + s.Slack
				if s.Slack < 0 {
					soh = (hdrEnd + 0x1ff) &^ 0x1ff
				}
				start := soh + s.Secs[i].Gap
				want := T + 12
				for want <= start {
					want += T
				}
				s.Secs[i].Size = want - start
				s.Secs[i].VirtSize = s.Secs[i].Size
			}
		}
	case 4: // a large DOS stub and nothing else special: every later boundary moves behind the first 32 KiB block
		s.Lfanew = 8 * r.Range(0x1000, 0x2100)
	}
	s.Aligned = T
}

// buildPE lays the image out.
func buildPE(s *PESpec) []byte {
	fill := &R{s: s.Fill}
	optBase := 96
	machine := uint16(0x14c)
	magic := uint16(0x10b)
	if s.PE32Plus {
		optBase, machine, magic = 112, 0x8664, 0x20b
	}
	optSize := optBase + 8*s.NumDirs
	coff := s.Lfanew + 4
	opt := coff + 20
	st := opt + optSize
	hdrEnd := st + 40*len(s.Secs)
	sizeOfHeaders := hdrEnd + s.Slack
	if s.Slack < 0 {
		sizeOfHeaders = (hdrEnd + 0x1ff) &^ 0x1ff
	}

	// file offsets of the section data, in file order
	type place struct{ ptr, size int }
	places := make([]place, len(s.Secs))
	order := make([]int, len(s.Secs)) // order[rank] = header index
	for i, sec := range s.Secs {
		if sec.FilePos < 0 || sec.FilePos >= len(s.Secs) {
			harnessf("pegen: bad file position")
		}
		order[sec.FilePos] = i
	}
	cur := sizeOfHeaders
	for _, hi := range order {
		sec := s.Secs[hi]
		cur += sec.Gap
		places[hi] = place{cur, sec.Size}
		cur += sec.Size
	}
	total := cur + s.Trailing
	b := fill.Bytes(total)

	// DOS header
	b[0], b[1] = 'M', 'Z'
	binary.LittleEndian.PutUint32(b[0x3c:], uint32(s.Lfanew))
	copy(b[s.Lfanew:], "PE\x00\x00")
	// COFF file header
	binary.LittleEndian.PutUint16(b[coff:], machine)
	binary.LittleEndian.PutUint16(b[coff+2:], uint16(len(s.Secs)))
	binary.LittleEndian.PutUint32(b[coff+8:], 0)  // PointerToSymbolTable
	binary.LittleEndian.PutUint32(b[coff+12:], 0) // NumberOfSymbols
	binary.LittleEndian.PutUint16(b[coff+16:], uint16(optSize))
	// optional header
	binary.LittleEndian.PutUint16(b[opt:], magic)
	binary.LittleEndian.PutUint32(b[opt+60:], uint32(sizeOfHeaders))
	numOff := 92
	if s.PE32Plus {
		numOff = 108
	}
	binary.LittleEndian.PutUint32(b[opt+numOff:], uint32(s.NumDirs))
	// certificate table directory entry: none
	dd4 := opt + optBase + 4*8
	for i := 0; i < 8; i++ {
		b[dd4+i] = 0
	}
	if s.StaleVA != 0 {
		binary.LittleEndian.PutUint32(b[dd4:], s.StaleVA)
	}
	// section table
	for i, sec := range s.Secs {
		o := st + 40*i
		copy(b[o:o+8], fmt.Sprintf(".s%d\x00\x00\x00\x00\x00\x00", i)[:8])
		binary.LittleEndian.PutUint32(b[o+8:], uint32(sec.VirtSize))
		binary.LittleEndian.PutUint32(b[o+12:], uint32(0x1000*(i+1)))
		binary.LittleEndian.PutUint32(b[o+16:], uint32(sec.Size))
		ptr := places[i].ptr
		if sec.Size == 0 && sec.ZeroPtr {
			ptr = 0
		}
		binary.LittleEndian.PutUint32(b[o+20:], uint32(ptr))
		binary.LittleEndian.PutUint32(b[o+24:], 0) // PointerToRelocations
		binary.LittleEndian.PutUint32(b[o+28:], 0) // PointerToLinenumbers
		binary.LittleEndian.PutUint16(b[o+32:], 0)
		binary.LittleEndian.PutUint16(b[o+34:], 0)
	}
	return b
}
