package sim

import (
	"bytes"
	"crypto"
	"encoding/binary"
	"encoding/json"
	"fmt"
	"io"
	"sort"
	"sync"
	"time"

	"github.com/foxboron/go-uefi/authenticode"
	"github.com/foxboron/go-uefi/efi"
	"github.com/foxboron/go-uefi/efi/attributes"
	efifs "github.com/foxboron/go-uefi/efi/fs"
	"github.com/foxboron/go-uefi/efi/signature"
	"github.com/foxboron/go-uefi/efivar"
	"github.com/foxboron/go-uefi/efivarfs"
	"github.com/foxboron/go-uefi/efivarfs/fswrapper"
	"github.com/foxboron/go-uefi/pkcs7"
	"github.com/spf13/afero"
)

// faultseq — property C15.
//
// For every operation instance the fault-free dependency-call sequence is
// recorded (phase 1); then the instance is replayed once per (position k,
// fault kind) — exhaustively (phase 2); then multi-fault and persistent
// ("device gone") sequences are sampled from the seed (phase 3).

type fsCfg struct {
	Family  string   `json:"family"`            // blob.SignPKCS7, img.Sign, var.Write, …
	Image   *ImgSpec `json:"image,omitempty"`   // img.*
	Key     int      `json:"key"`               // pool key index
	Var     *VarSpec `json:"var,omitempty"`     // var.*
	API     string   `json:"api,omitempty"`     // var.*: which entry point
	Payload string   `json:"payload,omitempty"` // var.*: value kind
	Phase   string   `json:"phase"`             // baseline | single | multi
}

func (c fsCfg) id() string {
	s := c.Family
	if c.Image != nil {
		s += ":" + c.Image.String()
	}
	if c.Var != nil {
		s += ":" + c.Var.String()
	}
	if c.API != "" {
		s += ":" + c.API
	}
	if c.Payload != "" {
		s += ":" + c.Payload
	}
	return fmt.Sprintf("%s:k%d", s, c.Key)
}

type fsOpDesc struct {
	Op string `json:"op"`
}

// fsOut is what an operation reported.
type fsOut struct {
	Failed bool   // error returned / nil digest / verify false / nil slice for the error-less accessors
	Err    string // error text, if any
	Value  []byte // canonical encoding of the successful result
	Panic  string
	// Broken: the operation failed as it should, but what it left behind is
	// inconsistent (set by multi-step operations that inspect the object
	// with the medium healthy again).
	Broken string
}

// fsWorld is the simulated environment of one case.
type fsWorld struct {
	x      *X
	plane  *Plane
	mem    afero.Fs
	fs     *SimFs
	signer *SimSigner
	pk     *PoolKey
	rd     *SimReader
	img    []byte
}

// fsOp is a prepared operation: run may be called several times (under
// faults, then with faults lifted).
type fsOp struct {
	kind string
	run  func() fsOut
	// state returns the observable state that a failed operation must leave
	// untouched (nil when the property states nothing).
	state func() []byte
	// signedUpdate is set for operations where a signer failure must leave
	// the filesystem untouched.
	signedUpdate bool
	// relift: after the faults are lifted the same call must return the
	// reference value or fail.
	relift bool
	// refAfterRetry: for mutating image operations the reference for the
	// re-run is the state, not the returned value.
}

const fsDir = "/sys/firmware/efi/efivars"

var fsInstant = time.Date(2024, 2, 29, 12, 0, 0, 0, time.UTC)

type faultseqEngine struct {
	mu    sync.Mutex
	plans map[string][]fsCase
}

type fsCase struct {
	cfg    fsCfg
	faults []Fault
}

func init() { register(&faultseqEngine{plans: map[string][]fsCase{}}) }

func (e *faultseqEngine) Name() string     { return "faultseq" }
func (e *faultseqEngine) Property() string { return "C15" }

// ---- instance catalogue ----

func fsInstances(seed uint64, tier string) []fsCfg {
	var out []fsCfg
	add := func(c fsCfg) { out = append(out, c) }

	// blobs and variables signed in memory
	for _, k := range []int{0, 2} {
		add(fsCfg{Family: "blob.SignPKCS7", Key: k})
		add(fsCfg{Family: "blob.SignAuthenticode", Key: k})
	}
	add(fsCfg{Family: "var.SignEFIVariable", Key: 1, Var: &VarSpec{Sym: "Db"}, Payload: "hashdb2"})
	add(fsCfg{Family: "var.SignEFIVariable", Key: 3, Var: &VarSpec{Sym: "PK"}, Payload: "certdb"})

	// images
	images := []ImgSpec{{Fixture: "test.pecoff"}, {Fixture: "HelloWorld.efi"}, {Fixture: "HelloWorld.efi.signed"}}
	if tier == "thorough" {
		images = append(images, ImgSpec{Fixture: "linuxx64.efi.stub"}, ImgSpec{Fixture: "test.pecoff.signed"})
		r := NewR(seed, "faultseq.images", 0)
		for i := 0; i < 250; i++ {
			images = append(images, ImgSpec{Gen: genPESpec(r.Fork(fmt.Sprint("img", i)))})
		}
	} else {
		r := NewR(seed, "faultseq.images", 0)
		for i := 0; i < 3; i++ {
			images = append(images, ImgSpec{Gen: genPESpec(r.Fork(fmt.Sprint("img", i)))})
		}
	}
	for i := range images {
		im := images[i]
		add(fsCfg{Family: "img.Parse", Image: &im})
		add(fsCfg{Family: "img.Hash", Image: &im})
		add(fsCfg{Family: "img.Sign", Image: &im, Key: i % 4})
		add(fsCfg{Family: "img.Verify", Image: &im, Key: (i + 1) % 4})
		add(fsCfg{Family: "img.ParseSignVerify", Image: &im, Key: (i + 2) % 4})
		add(fsCfg{Family: "img.History", Image: &im, Key: i % 2})
		add(fsCfg{Family: "blob.AuthVerify", Image: &im, Key: (i + 1) % 2})
	}

	// variable writes
	wvars := []VarSpec{{Sym: "Db"}, {Sym: "PK"}, {Sym: "BootOrder"},
		{Sym: "Dbx", Attrs: 0x67, AttrsSet: true}, // APPEND_WRITE
		{Name: "SimVar", GUID: "00112233445566778899aabbccddeeff", Attrs: 0x7}}
	for i := range wvars {
		v := wvars[i]
		for _, api := range []string{"obj.WriteVar", "legacy.WriteEfivarsWithGuid"} {
			add(fsCfg{Family: "var.Write", Var: &v, API: api, Payload: "hashdb2"})
		}
	}
	add(fsCfg{Family: "var.Write", Var: &VarSpec{Sym: "Db"}, API: "legacy.WriteEfivars", Payload: "hashdb2"})
	add(fsCfg{Family: "var.Write", Var: &VarSpec{Sym: "Db"}, API: "efi.WriteEFIVariable", Payload: "hashdb2"})
	add(fsCfg{Family: "var.Write", Var: &VarSpec{Sym: "Db"}, API: "obj.WriteVar", Payload: "empty"})
	add(fsCfg{Family: "var.Write", Var: &VarSpec{Sym: "Db"}, API: "testfs.WriteVar", Payload: "hashdb2"})

	// signed updates
	for i, v := range []VarSpec{{Sym: "Db"}, {Sym: "KEK"}, {Sym: "Dbx", Attrs: 0x67, AttrsSet: true}} {
		vv := v
		add(fsCfg{Family: "var.SignedUpdate", Var: &vv, Key: i, API: "obj", Payload: "hashdb2"})
	}
	add(fsCfg{Family: "var.SignedUpdate", Var: &VarSpec{Sym: "Db"}, Key: 2, API: "testfs", Payload: "hashdb2"})

	// variable reads
	for _, api := range []string{"obj.GetVar", "obj.GetVarWithAttributes", "legacy.ReadEfivars", "legacy.ReadEfivarsWithGuid", "obj.ReadEfivarsFile"} {
		add(fsCfg{Family: "var.Read", Var: &VarSpec{Sym: "Db"}, API: api, Payload: "hashdb2"})
	}
	add(fsCfg{Family: "var.Read", Var: &VarSpec{Sym: "Db"}, API: "obj.GetVar", Payload: "empty"})
	// the legacy top-level helpers define "absent" and "EOF" as "variable not set" (empty database, nil error);
	// every other failure of the filesystem has to surface. early_eof faults are therefore not injected here.
	for _, acc := range []string{"GetPK", "GetKEK", "Getdb", "Getdbx"} {
		add(fsCfg{Family: "var.Read", API: "efi." + acc})
	}
	for _, acc := range []string{"GetPK", "GetKEK", "Getdb", "Getdbx", "GetSetupMode", "GetSecureBoot", "GetBootOrder", "GetBootEntry", "GetLoaderEntrySelected"} {
		add(fsCfg{Family: "var.Read", API: "typed." + acc})
	}
	return out
}

func fsPayload(kind string) []byte {
	switch kind {
	case "", "hashdb2":
		return refHashDB(0x11, 2)
	case "empty":
		return nil
	case "certdb":
		pk := Pool()[0]
		var owner [16]byte
		owner[0] = 0x77
		return refESLEncode([]RefList{{Type: wireX509, Size: uint32(16 + len(pk.CertDER)), Sigs: []RefSig{{Owner: owner, Data: pk.CertDER}}}})
	}
	harnessf("unknown payload %q", kind)
	return nil
}

// ---- building a case ----

func (c fsCfg) build(w *fsWorld) fsOp {
	pk := w.pk
	switch c.Family {
	case "blob.SignPKCS7":
		content := []byte("simulated content to be signed, detached")
		return fsOp{kind: c.Family, relift: true, run: func() fsOut {
			b, err := pkcs7.SignPKCS7(w.signer, pk.Cert, pkcs7.OIDData, content)
			return outBytes(b, err)
		}}
	case "blob.SignAuthenticode":
		content := bytes.Repeat([]byte("authenticode hashed content "), 3000) // several Read calls
		w.rd.data = content
		return fsOp{kind: c.Family, relift: true, run: func() fsOut {
			b, err := authenticode.SignAuthenticode(w.signer, pk.Cert, io.NewSectionReader(w.rd, 0, int64(len(content))), crypto.SHA256)
			return outBytes(b, err)
		}}
	case "var.SignEFIVariable":
		v := c.Var.Var()
		val := rawVal(fsPayload(c.Payload))
		return fsOp{kind: c.Family, relift: true, run: func() fsOut {
			_, m, err := signature.SignEFIVariable(v, val, w.signer, pk.Cert)
			if err != nil {
				return fsOut{Failed: true, Err: err.Error()}
			}
			if m == nil {
				return fsOut{Failed: true, Err: "nil marshallable"}
			}
			return fsOut{Value: m.Bytes()}
		}}
	case "img.Parse":
		w.rd.data = w.img
		return fsOp{kind: c.Family, relift: true, run: func() fsOut {
			bin, err := authenticode.Parse(w.rd)
			if err != nil {
				return fsOut{Failed: true, Err: err.Error()}
			}
			if bin == nil {
				return fsOut{Failed: true, Err: "nil binary"}
			}
			// What a caller would go on to use: the digest and the
			// re-serialised file, read with the medium healthy again.
			var h, by []byte
			w.plane.Healthy(func() {
				h = bin.Hash(crypto.SHA256)
				by = bin.Bytes()
			})
			return fsOut{Value: append(append([]byte{}, h...), by...)}
		}}
	case "img.Hash":
		w.rd.data = w.img
		bin := mustParse(w)
		return fsOp{kind: c.Family, relift: true, run: func() fsOut {
			h := bin.Hash(crypto.SHA256)
			if h == nil {
				return fsOut{Failed: true, Err: "nil digest"}
			}
			return fsOut{Value: h}
		}}
	case "img.Sign":
		w.rd.data = w.img
		bin := mustParse(w)
		st := func() []byte { return imgState(w, bin) }
		return fsOp{kind: c.Family, state: st, run: func() fsOut {
			sig, err := bin.Sign(w.signer, pk.Cert)
			if err != nil {
				return fsOut{Failed: true, Err: err.Error()}
			}
			return fsOut{Value: append(append([]byte{}, sig...), imgState(w, bin)...)}
		}}
	case "img.Verify":
		w.rd.data = w.img
		bin := mustParse(w)
		if _, err := bin.Sign(w.signer, pk.Cert); err != nil {
			harnessf("fault-free Sign failed in setup of %s: %v", c.id(), err)
		}
		return fsOp{kind: c.Family, relift: true, run: func() fsOut {
			ok, err := bin.Verify(pk.Cert)
			if err != nil {
				return fsOut{Failed: true, Err: err.Error()}
			}
			if !ok {
				return fsOut{Failed: true, Err: "false, nil"}
			}
			return fsOut{Value: []byte{1}}
		}}
	case "img.ParseSignVerify":
		// the whole pipeline a signing tool runs, as one operation
		w.rd.data = w.img
		return fsOp{kind: c.Family, run: func() fsOut {
			bin, err := authenticode.Parse(w.rd)
			if err != nil {
				return fsOut{Failed: true, Err: err.Error()}
			}
			if _, err := bin.Sign(w.signer, pk.Cert); err != nil {
				return fsOut{Failed: true, Err: err.Error()}
			}
			var out []byte
			w.plane.Healthy(func() { out = bin.Bytes() }) // Bytes() has no error result; it is not one of the operations of C15
			bin2, err := authenticode.Parse(bytes.NewReader(out))
			if err != nil {
				return fsOut{Failed: true, Err: "reparse: " + err.Error()}
			}
			ok, err := bin2.Verify(pk.Cert)
			if err != nil || !ok {
				return fsOut{Failed: true, Err: fmt.Sprintf("verify: %v %v", ok, err)}
			}
			return fsOut{Value: out}
		}}
	case "img.History":
		// a signing history on one object: Sign(a) Verify(a) Sign(b) Verify(a) Verify(b) Hash
		w.rd.data = w.img
		other := Pool()[(c.Key+1)%2+0]
		if other.Idx == pk.Idx {
			other = Pool()[6]
		}
		return fsOp{kind: c.Family, run: func() fsOut {
			bin, err := authenticode.Parse(w.rd)
			if err != nil {
				return fsOut{Failed: true, Err: "parse: " + err.Error()}
			}
			var base int
			var refHash []byte
			w.plane.Healthy(func() {
				sigs, _ := bin.Signatures()
				base = len(sigs)
				refHash = bin.Hash(crypto.SHA256)
			})
			signed := []*PoolKey{}
			// inspect the object with the medium healthy: what a failure must not have broken
			inspect := func(step string) string {
				var bad string
				w.plane.Healthy(func() {
					sigs, err := bin.Signatures()
					if err != nil || len(sigs) != base+len(signed) {
						bad = fmt.Sprintf("after failed %s: %d signatures listed (err=%v), %d successful signings on top of %d", step, len(sigs), err, len(signed), base)
						return
					}
					if h := bin.Hash(crypto.SHA256); !bytes.Equal(h, refHash) {
						bad = fmt.Sprintf("after failed %s: Hash() changed", step)
						return
					}
					for _, s := range signed {
						if ok, err := bin.Verify(s.Cert); !ok {
							bad = fmt.Sprintf("after failed %s: the earlier signature by k%d no longer verifies (%v)", step, s.Idx, err)
							return
						}
					}
					nb, err := authenticode.Parse(bytes.NewReader(bin.Bytes()))
					if err != nil {
						bad = fmt.Sprintf("after failed %s: Bytes() does not re-parse: %v", step, err)
						return
					}
					if rs, _ := nb.Signatures(); len(rs) != base+len(signed) {
						bad = fmt.Sprintf("after failed %s: the serialised image carries %d signatures, expected %d", step, len(rs), base+len(signed))
					}
				})
				return bad
			}
			failAt := func(step string, err error) fsOut {
				return fsOut{Failed: true, Err: step + ": " + fmt.Sprint(err), Broken: inspect(step)}
			}
			if _, err := bin.Sign(w.signer, pk.Cert); err != nil {
				return failAt("Sign(a)", err)
			}
			signed = append(signed, pk)
			if ok, err := bin.Verify(pk.Cert); err != nil || !ok {
				return failAt("Verify(a)", fmt.Errorf("%v %v", ok, err))
			}
			os := &SimSigner{inner: other.Key, p: w.plane}
			if _, err := bin.Sign(os, other.Cert); err != nil {
				return failAt("Sign(b)", err)
			}
			signed = append(signed, other)
			if ok, err := bin.Verify(pk.Cert); err != nil || !ok {
				return failAt("Verify(a) after Sign(b)", fmt.Errorf("%v %v", ok, err))
			}
			if ok, err := bin.Verify(other.Cert); err != nil || !ok {
				return failAt("Verify(b)", fmt.Errorf("%v %v", ok, err))
			}
			h := bin.Hash(crypto.SHA256)
			if h == nil {
				return failAt("Hash", fmt.Errorf("nil digest"))
			}
			var out []byte
			w.plane.Healthy(func() { out = bin.Bytes() })
			return fsOut{Value: append(h, out...)}
		}}
	case "blob.AuthVerify":
		// Authenticode.Verify(cert, reader): the reader is the caller's
		w.rd.data = w.img
		bin := mustParse(w)
		var sig []byte
		var hashed []byte
		w.plane.Healthy(func() {
			var err error
			sig, err = bin.Sign(pk.Key, pk.Cert)
			if err != nil {
				harnessf("setup Sign: %v", err)
			}
		})
		// the bytes the digest covers, rebuilt independently: the padded original without the excluded fields
		hashed = refHashedBytes(w.img)
		w.rd.data = hashed
		ac, err := authenticode.ParseAuthenticode(sig)
		if err != nil {
			harnessf("ParseAuthenticode of a fresh signature: %v", err)
		}
		return fsOp{kind: c.Family, relift: true, run: func() fsOut {
			ok, err := ac.Verify(pk.Cert, io.NewSectionReader(w.rd, 0, int64(len(hashed))))
			if err != nil {
				return fsOut{Failed: true, Err: err.Error()}
			}
			if !ok {
				return fsOut{Failed: true, Err: "false, nil"}
			}
			return fsOut{Value: []byte{1}}
		}}
	case "var.Write":
		return c.buildWrite(w)
	case "var.SignedUpdate":
		return c.buildSignedUpdate(w)
	case "var.Read":
		return c.buildRead(w)
	}
	harnessf("unknown family %q", c.Family)
	return fsOp{}
}

func outBytes(b []byte, err error) fsOut {
	if err != nil {
		return fsOut{Failed: true, Err: err.Error()}
	}
	if b == nil {
		return fsOut{Failed: true, Err: "nil result, nil error"}
	}
	return fsOut{Value: b}
}

func mustParse(w *fsWorld) *authenticode.PECOFFBinary {
	bin, err := authenticode.Parse(w.rd)
	if err != nil {
		harnessf("fault-free Parse failed in setup: %v", err)
	}
	return bin
}

// imgState is the observable state of an image object, read with the medium healthy.
func imgState(w *fsWorld, bin *authenticode.PECOFFBinary) []byte {
	var b bytes.Buffer
	w.plane.Healthy(func() {
		sigs, err := bin.Signatures()
		fmt.Fprintf(&b, "nsigs=%d err=%v dd=%d/%d|", len(sigs), err, bin.Datadir.VirtualAddress, bin.Datadir.Size)
		for _, s := range sigs {
			b.Write(s.Certificate)
		}
		b.Write(bin.Bytes())
	})
	return b.Bytes()
}

func (w *fsWorld) objAPI() *efivarfs.Efivarfs {
	wr := fswrapper.NewMemoryWrapper()
	wr.SetFS(w.fs)
	return efivarfs.Open(&efivarfs.EFIFS{FSWrapper: wr})
}

func (w *fsWorld) objFS() *efivarfs.EFIFS {
	wr := fswrapper.NewMemoryWrapper()
	wr.SetFS(w.fs)
	return &efivarfs.EFIFS{FSWrapper: wr}
}

func (w *fsWorld) legacy() {
	efifs.SetFS(w.fs)
	attributes.Efivars = fsDir
}

func (w *fsWorld) fileState(path string) []byte {
	b, err := afero.ReadFile(w.mem, path)
	if err != nil {
		return []byte("absent:" + err.Error())
	}
	return append([]byte("present:"), b...)
}

func (c fsCfg) buildWrite(w *fsWorld) fsOp {
	if c.API == "obj.WriteFile" {
		fsys := w.objFS()
		data := []byte("plain file content")
		return fsOp{kind: c.Family + ":" + c.API, run: func() fsOut {
			if err := fsys.WriteFile("/some/file", data, 0o644); err != nil {
				return fsOut{Failed: true, Err: err.Error()}
			}
			return fsOut{Value: w.fileState("/some/file")}
		}}
	}
	v := c.Var.Var()
	val := rawVal(fsPayload(c.Payload))
	path := refVarPath(fsDir, v.Name, *v.GUID)
	var do func() error
	switch c.API {
	case "obj.WriteVar":
		api := w.objAPI()
		do = func() error { return api.WriteVar(v, val) }
	case "testfs.WriteVar":
		tfs := simTestFS(w.fs)
		do = func() error { return tfs.WriteVar(v, val) }
	case "legacy.WriteEfivarsWithGuid":
		w.legacy()
		do = func() error { return attributes.WriteEfivarsWithGuid(v.Name, v.Attributes, val, *v.GUID) }
	case "legacy.WriteEfivars":
		w.legacy()
		do = func() error { return attributes.WriteEfivars(v.Name, v.Attributes, val) }
	case "efi.WriteEFIVariable":
		w.legacy()
		do = func() error { return efi.WriteEFIVariable(v.Name, val) }
	default:
		harnessf("unknown write api %q", c.API)
	}
	return fsOp{kind: c.Family + ":" + c.API, run: func() fsOut {
		if err := do(); err != nil {
			return fsOut{Failed: true, Err: err.Error()}
		}
		return fsOut{Value: w.fileState(path)}
	}}
}

func (c fsCfg) buildSignedUpdate(w *fsWorld) fsOp {
	v := c.Var.Var()
	val := rawVal(fsPayload(c.Payload))
	path := refVarPath(fsDir, v.Name, *v.GUID)
	var api *efivarfs.Efivarfs
	if c.API == "testfs" {
		api = efivarfs.Open(simTestFS(w.fs))
	} else {
		api = w.objAPI()
	}
	return fsOp{kind: c.Family + ":" + c.API, signedUpdate: true, run: func() fsOut {
		if err := api.WriteSignedUpdate(v, val, w.signer, w.pk.Cert); err != nil {
			return fsOut{Failed: true, Err: err.Error()}
		}
		return fsOut{Value: w.fileState(path)}
	}}
}

func (c fsCfg) buildRead(w *fsWorld) fsOp {
	put := func(path string, attrs uint32, val []byte) {
		w.mem.MkdirAll(fsDir, 0o755)
		if err := afero.WriteFile(w.mem, path, append(le32(attrs), val...), 0o644); err != nil {
			harnessf("populate: %v", err)
		}
	}
	kind := c.Family + ":" + c.API
	if c.API == "obj.ReadFile" {
		afero.WriteFile(w.mem, "/some/file", bytes.Repeat([]byte("x"), 1500), 0o644)
		fsys := w.objFS()
		return fsOp{kind: kind, relift: true, run: func() fsOut {
			b, err := fsys.ReadFile("/some/file")
			return outBytes(b, err)
		}}
	}
	if len(c.API) > 4 && c.API[:4] == "efi." {
		w.legacy()
		var v efivar.Efivar
		var get func() (*signature.SignatureDatabase, error)
		switch c.API[4:] {
		case "GetPK":
			v, get = efivar.PK, efi.GetPK
		case "GetKEK":
			v, get = efivar.KEK, efi.GetKEK
		case "Getdb":
			v, get = efivar.Db, efi.Getdb
		case "Getdbx":
			v, get = efivar.Dbx, efi.Getdbx
		default:
			harnessf("unknown legacy accessor %q", c.API)
		}
		put(refVarPath(fsDir, v.Name, *v.GUID), uint32(v.Attributes), fsPayload("hashdb2"))
		return fsOp{kind: kind, relift: true, run: func() fsOut {
			db, err := get()
			if err != nil {
				return fsOut{Failed: true, Err: err.Error()}
			}
			if db == nil {
				return fsOut{Failed: true, Err: "nil database"}
			}
			return fsOut{Value: append([]byte("db:"), db.Bytes()...)}
		}}
	}
	if len(c.API) > 6 && c.API[:6] == "typed." {
		acc := c.API[6:]
		api := w.objAPI()
		dbv := fsPayload("hashdb2")
		switch acc {
		case "GetPK", "GetKEK", "Getdb", "Getdbx":
			var v efivar.Efivar
			var get func() (*signature.SignatureDatabase, error)
			switch acc {
			case "GetPK":
				v, get = efivar.PK, api.GetPK
			case "GetKEK":
				v, get = efivar.KEK, api.GetKEK
			case "Getdb":
				v, get = efivar.Db, api.Getdb
			case "Getdbx":
				v, get = efivar.Dbx, api.Getdbx
			}
			put(refVarPath(fsDir, v.Name, *v.GUID), uint32(v.Attributes), dbv)
			return fsOp{kind: kind, relift: true, run: func() fsOut {
				db, err := get()
				if err != nil {
					return fsOut{Failed: true, Err: err.Error()}
				}
				if db == nil {
					return fsOut{Failed: true, Err: "nil database"}
				}
				return fsOut{Value: append([]byte("db:"), db.Bytes()...)}
			}}
		case "GetSetupMode", "GetSecureBoot":
			v, get := efivar.SetupMode, api.GetSetupMode
			if acc == "GetSecureBoot" {
				v, get = efivar.SecureBoot, api.GetSecureBoot
			}
			put(refVarPath(fsDir, v.Name, *v.GUID), 0x6, []byte{1})
			return fsOp{kind: kind, relift: true, run: func() fsOut {
				b, err := get()
				if err != nil {
					return fsOut{Failed: true, Err: err.Error()}
				}
				return fsOut{Value: []byte(fmt.Sprint(b))}
			}}
		case "GetBootOrder":
			v := efivar.BootOrder
			put(refVarPath(fsDir, v.Name, *v.GUID), 0x7, []byte{1, 0, 1, 0x20, 2, 0x20, 0, 0})
			return fsOp{kind: kind, relift: true, run: func() fsOut {
				bo := api.GetBootOrder()
				if bo == nil {
					return fsOut{Failed: true, Err: "nil boot order"}
				}
				return fsOut{Value: []byte(fmt.Sprint(bo))}
			}}
		case "GetBootEntry":
			raw := fixture("repo", "vars", "Boot0001-8be4df61-93ca-11d2-aa0d-00e098032b8c")
			v := efivar.BootEntry
			put(refVarPath(fsDir, "Boot0001", *v.GUID), binary.LittleEndian.Uint32(raw), raw[4:])
			return fsOp{kind: kind, relift: true, run: func() fsOut {
				en, err := api.GetBootEntry("Boot0001")
				if err != nil {
					return fsOut{Failed: true, Err: err.Error()}
				}
				if en == nil {
					return fsOut{Failed: true, Err: "nil entry"}
				}
				return fsOut{Value: []byte(fmt.Sprintf("%q %d %d", en.Description, en.Attributes, len(en.FilePath)))}
			}}
		case "GetLoaderEntrySelected":
			v := efivar.LoaderEntrySelected
			put(refVarPath(fsDir, v.Name, *v.GUID), 0x6, []byte{0x61, 0, 0x72, 0, 0x63, 0, 0x68, 0, 0, 0})
			return fsOp{kind: kind, relift: true, run: func() fsOut {
				s, err := api.GetLoaderEntrySelected()
				if err != nil {
					return fsOut{Failed: true, Err: err.Error()}
				}
				return fsOut{Value: []byte(s)}
			}}
		}
		harnessf("unknown accessor %q", acc)
	}
	v := c.Var.Var()
	val := fsPayload(c.Payload)
	path := refVarPath(fsDir, v.Name, *v.GUID)
	put(path, uint32(v.Attributes), val)
	enc := func(a attributes.Attributes, b []byte) []byte {
		return append(le32(uint32(a)), b...)
	}
	var run func() fsOut
	switch c.API {
	case "obj.GetVar":
		api := w.objAPI()
		run = func() fsOut {
			var s rawSink
			if err := api.GetVar(v, &s); err != nil {
				return fsOut{Failed: true, Err: err.Error()}
			}
			return fsOut{Value: s.Got}
		}
	case "obj.GetVarWithAttributes":
		api := w.objAPI()
		run = func() fsOut {
			var s rawSink
			a, err := api.GetVarWithAttributes(v, &s)
			if err != nil {
				return fsOut{Failed: true, Err: err.Error()}
			}
			return fsOut{Value: enc(a, s.Got)}
		}
	case "obj.ReadEfivarsFile":
		fsys := w.objFS()
		run = func() fsOut {
			a, b, err := fsys.ReadEfivarsFile(path)
			if err != nil {
				return fsOut{Failed: true, Err: err.Error()}
			}
			if b == nil {
				return fsOut{Failed: true, Err: "nil buffer"}
			}
			return fsOut{Value: enc(a, b.Bytes())}
		}
	case "legacy.ReadEfivars":
		w.legacy()
		run = func() fsOut {
			a, b, err := attributes.ReadEfivars(v.Name)
			if err != nil {
				return fsOut{Failed: true, Err: err.Error()}
			}
			if b == nil {
				return fsOut{Failed: true, Err: "nil buffer"}
			}
			return fsOut{Value: enc(a, b.Bytes())}
		}
	case "legacy.ReadEfivarsWithGuid":
		w.legacy()
		run = func() fsOut {
			a, b, err := attributes.ReadEfivarsWithGuid(v.Name, *v.GUID)
			if err != nil {
				return fsOut{Failed: true, Err: err.Error()}
			}
			if b == nil {
				return fsOut{Failed: true, Err: "nil buffer"}
			}
			return fsOut{Value: enc(a, b.Bytes())}
		}
	default:
		harnessf("unknown read api %q", c.API)
	}
	return fsOp{kind: kind, relift: true, run: run}
}

// ---- running a case ----

func guardOp(run func() fsOut) (out fsOut) {
	defer func() {
		if r := recover(); r != nil {
			if he, ok := r.(*HarnessError); ok {
				panic(he)
			}
			out = fsOut{Panic: fmt.Sprint(r)}
		}
	}()
	return run()
}

func newFsWorld(x *X, c fsCfg) *fsWorld {
	w := &fsWorld{x: x}
	w.plane = NewPlane(x)
	w.mem = afero.NewMemMapFs()
	w.fs = NewSimFs(w.mem, w.plane, x)
	w.pk = Pool()[c.Key%poolSize]
	w.signer = &SimSigner{inner: w.pk.Key, p: w.plane}
	w.rd = &SimReader{p: w.plane}
	if c.Image != nil {
		w.img = c.Image.Bytes()
	}
	return w
}

// fsBaseline runs the instance fault-free on a fresh world and returns the
// reference result and the recorded dependency-call sequence.
func fsBaseline(c fsCfg) (fsOut, []string, []int) {
	w := newFsWorld(nil, c)
	op := c.build(w)
	w.plane.Arm(nil)
	out := guardOp(op.run)
	calls := append([]string(nil), w.plane.Calls...)
	return out, calls, nil
}

func (e *faultseqEngine) plan(seed uint64, tier string) []fsCase {
	key := fmt.Sprintf("%d/%s", seed, tier)
	e.mu.Lock()
	defer e.mu.Unlock()
	if p, ok := e.plans[key]; ok {
		return p
	}
	var cases []fsCase
	insts := fsInstances(seed, tier)
	type rec struct {
		c     fsCfg
		calls []string
	}
	var recs []rec
	// phase 1 needs the simulated clock for the signing instances
	pv := inBubble(planT, fsInstant, "", func() {
		for _, c := range insts {
			out, calls, _ := fsBaseline(c)
			if out.Failed || out.Panic != "" {
				harnessf("fault-free baseline of %s failed: %+v", c.id(), out)
			}
			recs = append(recs, rec{c, calls})
		}
	})
	if pv != nil {
		panic(pv)
	}
	for _, r := range recs {
		c := r.c
		c.Phase = "baseline"
		cases = append(cases, fsCase{cfg: c})
		c.Phase = "single"
		for k, call := range r.calls {
			for _, kind := range faultKindsFor(call) {
				if kind == "early_eof" && len(c.API) > 4 && c.API[:4] == "efi." {
					continue
				}
				switch kind {
				case "partial_err", "short_nil":
					for _, arg := range []int{1, 2, 1 << 30} {
						cases = append(cases, fsCase{c, []Fault{{Pos: k, Call: call, Kind: kind, Arg: arg}}})
					}
				default:
					cases = append(cases, fsCase{c, []Fault{{Pos: k, Call: call, Kind: kind}}})
				}
				if kind == "err" && call == cReadAt {
					// the medium is gone from this read on (a bad spot that every later pass hits again)
					cases = append(cases, fsCase{c, []Fault{{Pos: k, Call: call, Kind: kind, Persist: true}}})
				}
				if kind == "err" && call == cSign {
					cases = append(cases, fsCase{c, []Fault{{Pos: k, Call: call, Kind: kind, Errno: "partial_sig"}}})
					// a device that says its refusal is temporary; once, and for good
					cases = append(cases, fsCase{c, []Fault{{Pos: k, Call: call, Kind: kind, Errno: "temporary"}}})
					cases = append(cases, fsCase{c, []Fault{{Pos: k, Call: call, Kind: kind, Errno: "temporary", Persist: true}}})
				}
				if (kind == "err" || kind == "partial_err") && call == cReadAt {
					// the image medium: identities that a careless reader loop takes for the end of the data
					for _, en := range []string{"unexpected_eof", "unexpected_eof_wrapped", "eio"} {
						f := Fault{Pos: k, Call: call, Kind: kind, Errno: en}
						if kind == "partial_err" {
							f.Arg = 2
						}
						cases = append(cases, fsCase{c, []Fault{f}})
					}
				}
				if kind == "partial_err" && (call == cWrite || call == cRead) {
					for _, en := range []string{"eintr", "enoent"} {
						cases = append(cases, fsCase{c, []Fault{{Pos: k, Call: call, Kind: kind, Arg: 2, Errno: en}}})
					}
				}
				if kind == "err" && call != cSign && call != cReadAt {
					// the same failure with the identity the operating system gives it (what errors.Is / os.IsNotExist look at).
					// One exception: the top-level getters of package efi define "the variable file does not exist" as "not set",
					// so ENOENT at their open step is not a failure.
					for _, en := range []string{"enoent", "eintr"} {
						if en == "enoent" && (call == cOpen || call == cOpenFile) && len(c.API) > 4 && c.API[:4] == "efi." {
							continue
						}
						cases = append(cases, fsCase{c, []Fault{{Pos: k, Call: call, Kind: kind, Errno: en}}})
					}
				}
			}
		}
	}
	// phase 3: sampled multi-fault and persistent sequences
	nmulti := 600
	if tier == "thorough" {
		nmulti = 200000
	}
	r := NewR(seed, "faultseq.multi", 0)
	for i := 0; i < nmulti; i++ {
		rc := recs[r.Intn(len(recs))]
		if len(rc.calls) == 0 {
			continue
		}
		c := rc.c
		c.Phase = "multi"
		nf := r.Range(1, 3)
		var fs []Fault
		seen := map[int]bool{}
		for j := 0; j < nf; j++ {
			k := r.Intn(len(rc.calls))
			if seen[k] {
				continue
			}
			seen[k] = true
			kinds := faultKindsFor(rc.calls[k])
			if len(rc.c.API) > 4 && rc.c.API[:4] == "efi." {
				var ks []string
				for _, kk := range kinds {
					if kk != "early_eof" {
						ks = append(ks, kk)
					}
				}
				kinds = ks
			}
			if len(kinds) == 0 {
				continue
			}
			f := Fault{Pos: k, Call: rc.calls[k], Kind: Pick(r, kinds), Arg: Pick(r, []int{0, 1, 2, 3, 5, 8, 1 << 30}), Persist: r.Chance(1, 3)}
			if r.Chance(1, 3) && f.Call != cSign && f.Call != cReadAt {
				f.Errno = Pick(r, []string{"enoent", "eintr", "eio"})
				if f.Errno == "enoent" && (f.Call == cOpen || f.Call == cOpenFile) && len(rc.c.API) > 4 && rc.c.API[:4] == "efi." {
					f.Errno = "eio"
				}
			}
			fs = append(fs, f)
		}
		if len(fs) == 0 {
			continue
		}
		sort.Slice(fs, func(a, b int) bool { return fs[a].Pos < fs[b].Pos })
		cases = append(cases, fsCase{c, fs})
	}
	e.plans[key] = cases
	return cases
}

func (e *faultseqEngine) Plan(seed uint64, tier string) int { return len(e.plan(seed, tier)) }

func (e *faultseqEngine) Gen(seed uint64, tier string, run int) *Trace {
	cs := e.plan(seed, tier)
	if run < 0 || run >= len(cs) {
		harnessf("faultseq: run %d out of plan (%d)", run, len(cs))
	}
	c := cs[run]
	return &Trace{Property: "C15", Engine: "faultseq", Seed: seed, Run: run, Tier: tier,
		Cfg: mustJSON(c.cfg), Ops: rawList([]fsOpDesc{{Op: c.cfg.Family}}), Faults: rawList(c.faults), Schedule: []json.RawMessage{}}
}

func (e *faultseqEngine) Exec(tr *Trace, x *X) {
	var c fsCfg
	if err := json.Unmarshal(tr.Cfg, &c); err != nil {
		harnessf("faultseq cfg: %v", err)
	}
	faults, err := unrawList[Fault](tr.Faults)
	if err != nil {
		harnessf("faultseq faults: %v", err)
	}
	if len(tr.Ops) == 0 {
		// the operation itself was shrunk away: nothing to run, nothing to judge
		x.Logf("no operation")
		return
	}
	pv := inBubble(x.T, fsInstant, "", func() { e.execCase(c, faults, x) })
	if pv != nil {
		panic(pv)
	}
}

func (e *faultseqEngine) execCase(c fsCfg, faults []Fault, x *X) {
	x.Logf("case %s phase=%s faults=%d", c.id(), c.Phase, len(faults))
	// reference: the same instance on a fresh, healthy world
	ref, refCalls, _ := fsBaseline(c)
	if ref.Failed || ref.Panic != "" {
		x.Fail("faultseq.baseline_succeeds", 0, c.Family, "fault-free run failed: err=%q panic=%q", ref.Err, ref.Panic)
		return
	}
	x.Logf("baseline calls=%d value=%s", len(refCalls), shortHex(ref.Value))

	w := newFsWorld(x, c)
	op := c.build(w)
	var pre []byte
	if op.state != nil {
		pre = op.state()
	}
	nev := len(w.fs.Events)
	w.plane.Arm(faults)
	out := guardOp(op.run)
	fired := append([]string(nil), w.plane.Fired...)
	callsUnder := append([]string(nil), w.plane.Calls...)
	w.plane.Disarm()
	x.Steps += len(callsUnder)
	x.Logf("under faults: failed=%v err=%q panic=%q fired=%v calls=%d", out.Failed, out.Err, out.Panic, fired, len(callsUnder))

	sig := map[string]string{"family": c.Family, "api": c.API}
	if len(faults) > 0 {
		f0 := faults[0]
		sig["call"], sig["kind"] = f0.Call, f0.Kind
		sig["site"] = fsSite(c, w, f0, callsUnder)
	}
	fail := func(oracle, format string, a ...any) {
		x.Fail(oracle, 0, op.kind, format, a...)
		if x.Viol != nil && x.Viol.Sig == nil {
			x.Viol.Sig = sig
		}
	}

	if out.Panic != "" {
		fail("faultseq.process_keeps_running", "operation panicked: %s", out.Panic)
		return
	}
	if len(fired) == 0 {
		// no fault took effect: this is a fault-free execution and must behave like one
		if out.Failed {
			fail("faultseq.baseline_succeeds", "no fault fired but the operation failed: %s", out.Err)
		} else if !bytes.Equal(out.Value, ref.Value) {
			fail("faultseq.baseline_succeeds", "no fault fired but the result differs from the reference run")
		}
		return
	}
	x.Nontriv = true
	x.DKey = c.id() + "|" + fmt.Sprint(fired)
	if !out.Failed {
		if bytes.Equal(out.Value, ref.Value) {
			fail("faultseq.error_required", "dependency call failed (%v) but the operation reported success", fired)
		} else {
			fail("faultseq.wrong_result", "dependency call failed (%v), the operation reported success AND returned a result that differs from the fault-free one (%s vs %s)", fired, shortHex(out.Value), shortHex(ref.Value))
		}
		return
	}
	// the operation failed, as it must. Now what it must not have done.
	if out.Broken != "" {
		fail("faultseq.object_consistent_after_failure", "%s (failure: %s)", out.Broken, out.Err)
		return
	}
	if op.state != nil {
		if post := op.state(); !bytes.Equal(pre, post) {
			fail("faultseq.failed_sign_leaves_object", "operation failed (%s) but the object changed (signatures/bytes differ from before)", out.Err)
			return
		}
	}
	if op.signedUpdate {
		signerFailed := false
		for _, f := range fired {
			if bytes.Contains([]byte(f), []byte(cSign)) {
				signerFailed = true
			}
		}
		if signerFailed {
			for _, ev := range w.fs.Events[nev:] {
				if ev.mutating() {
					fail("faultseq.failed_update_writes_nothing", "signing failed but the filesystem saw %s", ev.String())
					return
				}
			}
		}
	}
	// faults lifted: the same call on the same object returns the fault-free result or an error
	if op.relift {
		out2 := guardOp(op.run)
		x.Logf("after lift: failed=%v err=%q panic=%q", out2.Failed, out2.Err, out2.Panic)
		if out2.Panic != "" {
			fail("faultseq.process_keeps_running", "operation panicked after the fault was lifted: %s", out2.Panic)
			return
		}
		if !out2.Failed && !bytes.Equal(out2.Value, ref.Value) {
			fail("faultseq.wrong_result_after_fault", "after a failed call the same operation succeeded with a different result (%s vs %s)", shortHex(out2.Value), shortHex(ref.Value))
			return
		}
		if !out2.Failed {
			x.Probe("recovered_after_lift")
		} else {
			x.Probe("poisoned_after_lift")
		}
	} else if op.state != nil {
		// mutating image operation: a retry on the same object must give what a first try gives
		out2 := guardOp(op.run)
		x.Logf("retry: failed=%v err=%q", out2.Failed, out2.Err)
		if out2.Panic != "" {
			fail("faultseq.process_keeps_running", "operation panicked on retry: %s", out2.Panic)
			return
		}
		if !out2.Failed && !bytes.Equal(out2.Value, ref.Value) {
			fail("faultseq.wrong_result_after_fault", "retry after a failed Sign produced a different image/signature than a first Sign")
			return
		}
	}
	// a failure stays where it happened: the same operation on a FRESH object over a healthy medium (another image handle,
	// another store) gives exactly what it gave before anything failed in this process
	if len(fired) > 0 {
		ref2, _, _ := fsBaseline(c)
		if ref2.Panic != "" || ref2.Failed || !bytes.Equal(ref2.Value, ref.Value) {
			fail("faultseq.failure_stays_local", "after the failed operation, the same operation on a fresh object with healthy dependencies gives failed=%v err=%q panic=%q value=%s; before the failure it gave %s", ref2.Failed, ref2.Err, ref2.Panic, shortHex(ref2.Value), shortHex(ref.Value))
			return
		}
	}
}

// fsSite classifies where in the operation the (first) fault landed, in terms
// that do not depend on call ordinals: used to key known findings.
func fsSite(c fsCfg, w *fsWorld, f Fault, calls []string) string {
	if f.Call == cReadAt && w.img != nil {
		return "image-read"
	}
	return f.Call
}
