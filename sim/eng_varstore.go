package sim

import (
	"bytes"
	"encoding/json"
	"fmt"
	"github.com/foxboron/go-uefi/efi/util"
	"sort"
	"testing/fstest"
	"time"

	"github.com/anishathalye/porcupine"
	"github.com/foxboron/go-uefi/efi/attributes"
	"github.com/foxboron/go-uefi/efi/signature"
	"github.com/foxboron/go-uefi/efivar"
	"github.com/foxboron/go-uefi/efivarfs"
	"github.com/foxboron/go-uefi/efivarfs/testfs"
)

// varstore — property C12: the in-memory variable store offered for tests
// behaves as one register per variable, for every history.

type vsCfg struct {
	// Faulty: the byte store underneath the in-memory store fails now and then (faults list of the trace). A write
	// that reports an error leaves its variable indeterminate until the next acknowledged write; every acknowledged
	// write is read back exactly; a read may fail while a fault fires, it never returns another value.
	Faulty bool `json:"faulty_backing,omitempty"`
	// SecondStore: another in-memory store is created and opened in the same process after this one (and written to);
	// what happens there is none of this store's business, and the other way round.
	SecondStore bool `json:"second_store,omitempty"`
	// SharedGUID: the caller keeps one GUID object and fills it in for whichever vendor variable it is about to use
	SharedGUID bool `json:"shared_guid_object,omitempty"`
	// SharedFixture: the pre-populated files are handed to this store AND to the second store as one and the same map
	// object (a test fixture), and the second store gets a further overlay
	SharedFixture bool       `json:"shared_fixture,omitempty"`
	Instant       string     `json:"instant"`
	Prepop        []vsPrepop `json:"prepopulated,omitempty"`
	Vars          []VarSpec  `json:"vars"`
}

type vsPrepop struct {
	Var int     `json:"var"`
	Val ValSpec `json:"val"`
	// Extra attribute bits the pre-populated file carries beyond the definition's
	Extra uint32 `json:"extra_attrs,omitempty"`
}

type vsOp struct {
	Op  string  `json:"op"`  // WriteVar | WriteSignedUpdate | WriteBlob | GetVar | GetVarInto | GetVarWithAttributes | Typed | Reopen
	Var int     `json:"var"` // index into cfg.Vars
	Val ValSpec `json:"val,omitempty"`
	Key int     `json:"key,omitempty"`
	// Reuse: hand the store the SAME Marshallable object that an earlier
	// operation of this run with the same value used (a *SignatureDatabase for
	// WriteVar, the product of SignEFIVariable for WriteBlob).
	Reuse bool `json:"reuse,omitempty"`
	// Advance: simulated seconds that pass before this operation
	Advance int `json:"advance_s,omitempty"`
}

type varstoreEngine struct{}

func init() { register(&varstoreEngine{}) }

func (e *varstoreEngine) Name() string     { return "varstore" }
func (e *varstoreEngine) Property() string { return "C12" }

func (e *varstoreEngine) Plan(seed uint64, tier string) int {
	if tier == "thorough" {
		return 1600000
	}
	return 24000
}

var vsSecure = []string{"PK", "KEK", "Db", "Dbx"}

func (e *varstoreEngine) Gen(seed uint64, tier string, run int) *Trace {
	r := NewR(seed, "varstore", run)
	var c vsCfg
	ti, _ := genInstant(r.Fork("instant"))
	c.Instant = ti.Format(time.RFC3339)
	// swarm: which variables exist in this run
	nsec := r.Range(1, 3)
	for _, i := range r.Perm(len(vsSecure))[:nsec] {
		c.Vars = append(c.Vars, VarSpec{Sym: vsSecure[i], Rebuilt: r.Chance(1, 4)})
	}
	if r.Chance(2, 3) {
		c.Vars = append(c.Vars, VarSpec{Sym: Pick(r, []string{"BootOrder", "BootNext", "LoaderEntrySelected", "SetupMode"})})
	}
	if r.Chance(1, 2) {
		v := genVarSpec(r)
		v.Attrs &^= 0x40 // the statement is about plain and signed writes
		if v.Sym == "" {
			c.Vars = append(c.Vars, v)
		}
	}
	twin := -1
	if r.Chance(1, 4) {
		// a second variable with the same name under another vendor GUID
		src := c.Vars[r.Intn(len(c.Vars))].Var()
		c.Vars = append(c.Vars, VarSpec{Name: src.Name, GUID: fmt.Sprintf("%x", r.Bytes(16)), Attrs: uint32(src.Attributes) &^ 0x40})
		twin = len(c.Vars) - 1
	}
	isSecure := func(i int) bool {
		for _, s := range vsSecure {
			if c.Vars[i].Sym == s {
				return true
			}
		}
		return false
	}
	secureName := func(i int) bool {
		switch c.Vars[i].Var().Name {
		case "PK", "KEK", "db", "dbx":
			return true
		}
		return false
	}
	// small value universe per run so that values repeat, grow and shrink
	// (the hash databases of a run mostly share their entries: shorter ones are prefixes of longer ones, so that values overlap)
	ht := 1 + r.Intn(3)
	dbvals := []ValSpec{{Kind: "hashdb", N: 0}, {Kind: "hashdb", N: 1, Tag: ht}, {Kind: "hashdb", N: 2, Tag: ht},
		{Kind: "hashdb", N: 3, Tag: 1 + r.Intn(3)}, {Kind: "hashdb", N: r.Range(4, 9), Tag: ht}, {Kind: "certdb", Tag: r.Intn(poolSize)},
		{Kind: "multidb", N: r.Range(2, 4), Tag: r.Intn(4)}, {Kind: "tailemptydb", N: r.Intn(3), Tag: r.Intn(4)},
		{Kind: "randdb", Tag: r.Intn(1 << 24)}, {Kind: "randdb", Tag: r.Intn(1 << 24)},
		{Kind: "cutupdate", N: Pick(r, []int{17, 24, 39, 40, 41, 100, 700, 1200}), Tag: r.Intn(4)}}
	rawvals := []ValSpec{{Kind: "raw", N: 0}, {Kind: "raw", N: 1, Tag: 1}, {Kind: "raw", N: 4, Tag: 2}, {Kind: "raw", N: 7, Tag: 3},
		{Kind: "raw", N: 48, Tag: 4}, {Kind: "raw", N: r.Range(49, 400), Tag: 5}, {Kind: "bootorder", N: r.Range(1, 6), Tag: 1}}
	val := func(i int) ValSpec {
		if isSecure(i) || secureName(i) {
			return Pick(r, dbvals)
		}
		if r.Chance(1, 6) {
			// a value that begins with the very bytes the store puts in front of it (the variable's attribute mask, little-endian):
			// a counter that reached 7 on an NV+BS+RT variable
			return ValSpec{Kind: "maskfirst", N: Pick(r, []int{4, 8, 12}), Tag: int(c.Vars[i].Var().Attributes)}
		}
		return Pick(r, rawvals)
	}
	if r.Chance(1, 3) {
		for i := range c.Vars {
			if r.Bool() {
				pp := vsPrepop{Var: i, Val: val(i)}
				if r.Chance(1, 3) {
					pp.Extra = uint32(Pick(r, []int{0x1, 0x8, 0x10, 0x80, 0x9}))
				}
				c.Prepop = append(c.Prepop, pp)
			}
		}
	}
	nops := r.Range(2, 30)
	if r.Chance(1, 2) {
		nops = r.Range(2, 8)
	}
	var ops []vsOp
	for i := 0; i < nops; i++ {
		vi := r.Intn(len(c.Vars))
		switch r.Weighted([]int{5, 2, 4, 1, 2, 2, 2, 1}) {
		case 6:
			// read into a database object that earlier reads of this run already filled
			if isSecure(vi) {
				ops = append(ops, vsOp{Op: "GetVarInto", Var: vi})
			} else {
				ops = append(ops, vsOp{Op: "GetVar", Var: vi})
			}
		case 7:
			if r.Chance(1, 3) {
				ops = append(ops, vsOp{Op: "Reopen", Var: vi})
			} else {
				ops = append(ops, vsOp{Op: "GetVar", Var: vi})
			}
		case 5:
			if vi == twin {
				ops = append(ops, vsOp{Op: "WriteVar", Var: vi, Val: val(vi), Reuse: true})
			} else {
				ops = append(ops, vsOp{Op: "WriteBlob", Var: vi, Val: val(vi), Key: r.Intn(2), Reuse: r.Chance(3, 4)})
			}
		case 0:
			ops = append(ops, vsOp{Op: "WriteVar", Var: vi, Val: val(vi), Reuse: r.Chance(1, 3)})
		case 1:
			if vi == twin {
				ops = append(ops, vsOp{Op: "WriteVar", Var: vi, Val: val(vi)})
			} else if isSecure(vi) || r.Chance(1, 4) {
				ops = append(ops, vsOp{Op: "WriteSignedUpdate", Var: vi, Val: val(vi), Key: r.Intn(3)})
			} else {
				ops = append(ops, vsOp{Op: "WriteVar", Var: vi, Val: val(vi)})
			}
		case 2:
			ops = append(ops, vsOp{Op: "GetVar", Var: vi})
		case 3:
			ops = append(ops, vsOp{Op: "GetVarWithAttributes", Var: vi})
		case 4:
			if isSecure(vi) {
				ops = append(ops, vsOp{Op: "Typed", Var: vi})
			} else {
				ops = append(ops, vsOp{Op: "GetVar", Var: vi})
			}
		}
	}
	c.SecondStore = r.Fork("second").Chance(1, 5)
	c.SharedGUID = r.Fork("sharedguid").Chance(1, 4)
	c.SharedFixture = c.SecondStore && r.Fork("fixture").Bool()
	if cr := r.Fork("clock"); cr.Chance(1, 3) {
		// time passes between the operations; and the run starts just before a second, minute or hour gains a digit
		if cr.Bool() {
			t0, _ := time.Parse(time.RFC3339, c.Instant)
			t0 = t0.Truncate(time.Hour).Add(time.Duration(Pick(cr, []int{9*3600 + 59*60 + 58, 9*60 + 58, 8, 59*60 + 8, 23*3600 + 59*60 + 58})) * time.Second)
			if t0.After(bubbleEpoch) && t0.Before(simMaxInstant.Add(-48*time.Hour)) {
				c.Instant = t0.UTC().Format(time.RFC3339)
			}
		}
		for i := range ops {
			if cr.Chance(2, 3) {
				ops[i].Advance = Pick(cr, []int{1, 1, 1, 2, 51, 60, 3599})
			}
		}
	}
	var faults []Fault
	if fr := r.Fork("faults"); fr.Chance(1, 5) {
		c.Faulty = true
		for n := fr.Range(1, 4); n > 0; n-- {
			faults = append(faults, Fault{Pos: fr.Intn(5*nops + 3), Kind: Pick(fr, []string{"err", "partial_err", "short_nil", "err_full", "err"}), Arg: Pick(fr, []int{1, 2, 3, 4, 5, 17, 40})})
		}
	}
	// a value that only begins like an authentication descriptor is a value for PLAIN writes (as the payload of a signed
	// update to PK/KEK/db/dbx it would not be a signature database, which is what those variables hold)
	for i := range ops {
		if ops[i].Val.Kind == "cutupdate" && ops[i].Op != "WriteVar" {
			ops[i].Val = ValSpec{Kind: "hashdb", N: 2, Tag: ht}
		}
	}
	return &Trace{Property: "C12", Engine: "varstore", Seed: seed, Run: run, Tier: tier,
		Cfg: mustJSON(c), Ops: rawList(ops), Faults: rawList(faults), Schedule: []json.RawMessage{}}
}

// ---- porcupine register model (second implementation of the oracle) ----

type regIn struct {
	Write bool
	Unset bool // the store was re-opened and this variable is not among the pre-populated ones
	Var   int
	Val   string
}
type regOut struct {
	Ok  bool // read: a value was returned
	Val string
}

var regModel = porcupine.Model{
	Partition: func(h []porcupine.Operation) [][]porcupine.Operation {
		m := map[int][]porcupine.Operation{}
		var keys []int
		for _, o := range h {
			k := o.Input.(regIn).Var
			if _, ok := m[k]; !ok {
				keys = append(keys, k)
			}
			m[k] = append(m[k], o)
		}
		out := make([][]porcupine.Operation, 0, len(keys))
		for _, k := range keys {
			out = append(out, m[k])
		}
		return out
	},
	Init: func() interface{} { return "\x00unset" },
	Step: func(state, input, output interface{}) (bool, interface{}) {
		in, out := input.(regIn), output.(regOut)
		if in.Unset {
			return true, "\x00unset"
		}
		if in.Write {
			return true, in.Val
		}
		st := state.(string)
		if st == "\x00unset" {
			return true, st // nothing was ever written: the statement is silent
		}
		return out.Ok && out.Val == st, st
	},
	Equal: func(a, b interface{}) bool { return a.(string) == b.(string) },
}

func (e *varstoreEngine) Exec(tr *Trace, x *X) {
	var c vsCfg
	if err := json.Unmarshal(tr.Cfg, &c); err != nil {
		harnessf("varstore cfg: %v", err)
	}
	ops, err := unrawList[vsOp](tr.Ops)
	if err != nil {
		harnessf("varstore ops: %v", err)
	}
	at, err := time.Parse(time.RFC3339, c.Instant)
	if err != nil {
		harnessf("varstore instant: %v", err)
	}
	x.Sim(at.Unix())
	var hist []porcupine.Operation
	faults, err := unrawList[Fault](tr.Faults)
	if err != nil {
		harnessf("varstore faults: %v", err)
	}
	if pv := inBubble(x.T, at, "", func() { hist = vsExec(c, ops, faults, x) }); pv != nil {
		panic(pv)
	}
	// the recorded history, checked a second time by porcupine (outside the
	// bubble: its timeout must read the real clock)
	if len(hist) > 0 && !x.Failed() {
		switch porcupine.CheckOperationsTimeout(regModel, hist, 30*time.Second) {
		case porcupine.Illegal:
			x.Fail("register.history_linearizable", len(ops)-1, "history", "porcupine: the recorded history is not a legal register history (and the step oracle did not flag it)")
		case porcupine.Unknown:
			x.Probe("porcupine_inconclusive")
		default:
			x.Probe("porcupine_ok")
		}
	}
}

func vsExec(c vsCfg, ops []vsOp, faults []Fault, x *X) (hist []porcupine.Operation) {
	if attributes.Efivars != "/sys/firmware/efi/efivars" {
		harnessf("attributes.Efivars was left at %q", attributes.Efivars)
	}
	tfs := testfs.NewTestFS()
	fixture := fstest.MapFS{} // (SharedFixture) one map object handed to both stores
	model := map[int][]byte{} // variable index -> value of the most recent write
	has := map[int]bool{}
	for _, p := range c.Prepop {
		if p.Var >= len(c.Vars) {
			continue
		}
		v := c.Vars[p.Var].Var()
		val := p.Val.Bytes()
		pth := refVarPath("/sys/firmware/efi/efivars", v.Name, *v.GUID)
		if c.SharedFixture {
			fixture[pth] = &fstest.MapFile{Data: append(le32(uint32(v.Attributes)|p.Extra), val...)}
		} else {
			tfs.With(fstest.MapFS{pth: {Data: append(le32(uint32(v.Attributes)|p.Extra), val...)}})
		}
		if p.Extra != 0 {
			x.Probe("prepopulated_with_extra_attributes")
		}
		model[p.Var], has[p.Var] = val, true
		x.Logf("prepopulated %s = %s", c.Vars[p.Var].String(), shortHex(val))
	}
	var tfs2 *testfs.TestFS
	if c.SharedFixture {
		// the same fixture map for both stores; the second one gets a further overlay with a variable of its own
		tfs.With(fixture)
		extra := fstest.MapFS{}
		for k, vs := range c.Vars {
			if _, pre := model[k]; !pre {
				v := vs.Var()
				extra[refVarPath("/sys/firmware/efi/efivars", v.Name, *v.GUID)] = &fstest.MapFile{Data: append(le32(uint32(v.Attributes)), "only the second store was given this"...)}
			}
		}
		tfs2 = testfs.NewTestFS().With(fixture).With(extra)
		x.Probe("one_fixture_map_for_two_stores")
	}
	api := tfs.Open()
	var api2 *efivarfs.Efivarfs
	second := map[int][]byte{}
	if c.SecondStore {
		if tfs2 == nil {
			tfs2 = testfs.NewTestFS()
		}
		api2 = tfs2.Open()
		for k, vs := range c.Vars {
			val := []byte(fmt.Sprintf("second store, variable %d, a value long enough to leave a tail behind ................................", k))
			if err := api2.WriteVar(vs.Var(), rawVal(val)); err == nil {
				second[k] = val
			}
		}
		x.Probe("second_store_alive")
	}
	// the faulty device: the same byte store the in-memory store composed, seen through the fault plane
	var plane *Plane
	wrap := func() {
		if !c.Faulty || len(faults) == 0 {
			return
		}
		inner := testfsBacking(tfs)
		if inner == nil {
			x.Probe("faulty_backing_unavailable") // the store keeps its byte store somewhere this harness does not know: fault-free run
			return
		}
		if plane == nil {
			plane = NewPlane(x)
			plane.Arm(faults)
		}
		tfs.SetFS(NewSimFs(inner, plane, nil))
	}
	wrap()
	fired := func() int {
		if plane == nil {
			return 0
		}
		return len(plane.Fired)
	}
	objs := map[string]vsObj{}
	var shared signature.SignatureDatabase // one destination object reused by every GetVarInto of the run
	prepop := map[int][]byte{}
	for k, v := range model {
		prepop[k] = v
	}
	var sharedGUID util.EFIGUID
	touched := map[int]bool{} // variables some write of this run was aimed at (successful or not)
	seq := int64(0)
	var kept []*keepSink // values earlier reads handed to a decoder that kept them
	writes := map[int]int{}
	readAfter2 := false
	for i, op := range ops {
		if x.Failed() {
			return hist
		}
		if op.Var < 0 || op.Var >= len(c.Vars) {
			continue // variable was shrunk away
		}
		vs := c.Vars[op.Var]
		v := vs.Var()
		if c.SharedGUID && vs.Sym == "" && v.GUID != nil {
			sharedGUID = *v.GUID
			v.GUID = &sharedGUID
		}
		if op.Advance > 0 && time.Now().Add(time.Duration(op.Advance)*time.Second).Before(simMaxInstant) {
			time.Sleep(time.Duration(op.Advance) * time.Second)
		}
		x.Steps++
		call := seq
		seq++
		var pv any
		fired0 := fired()
		switch op.Op {
		case "WriteVar", "WriteSignedUpdate", "WriteBlob":
			val := op.Val.Bytes()
			expect := val
			var werr error
			func() {
				defer func() { pv = recover() }()
				if op.Op == "WriteBlob" {
					// the product of SignEFIVariable, written with WriteVar; possibly the same object again
					pk := Pool()[op.Key%poolSize]
					key := fmt.Sprint("blob", op.Var, op.Val, op.Key)
					ob, ok := objs[key]
					if !ok || !op.Reuse {
						_, m, err := signature.SignEFIVariable(v, rawVal(val), pk.Key, pk.Cert)
						if err != nil {
							harnessf("SignEFIVariable: %v", err)
						}
						ob = vsObj{m: m, bytes: m.Bytes()}
						objs[key] = ob
					} else {
						x.Probe("marshallable_reused")
					}
					if !vsStoreStrips(v.Name) {
						expect = ob.bytes
					}
					werr = api.WriteVar(v, ob.m)
				} else if op.Op == "WriteVar" {
					var m efivar.Marshallable = rawVal(val)
					if op.Reuse {
						if _, err := refESLDecode(val); err == nil && vsStoreStrips(v.Name) {
							// a library database object, shared between writes (and variables) of this run
							key := fmt.Sprint("db", op.Val)
							ob, ok := objs[key]
							if !ok {
								db, err := signature.ReadSignatureDatabase(bytes.NewReader(val))
								if err != nil {
									harnessf("ReadSignatureDatabase of a reference stream: %v", err)
								}
								ob = vsObj{m: &db, bytes: val}
								objs[key] = ob
							} else {
								x.Probe("marshallable_reused")
							}
							m = ob.m
						}
					}
					werr = api.WriteVar(v, m)
				} else {
					pk := Pool()[op.Key%poolSize]
					if !vsStoreStrips(v.Name) {
						// ordinary variable: the store keeps the whole signed update. (The store decides by
						// NAME: a vendor variable that happens to be called PK/KEK/db/dbx is stripped too; the
						// statement speaks of "secure-boot variables" and does not say which reading is meant,
						// so the model follows the store there.)
						_, m, err := signature.SignEFIVariable(v, rawVal(val), pk.Key, pk.Cert)
						if err != nil {
							harnessf("SignEFIVariable: %v", err)
						}
						expect = m.Bytes()
					}
					werr = api.WriteSignedUpdate(v, libVal(val, i%2 == 0), pk.Key, pk.Cert)
				}
			}()
			x.Logf("op %d %s %s val=%s -> err=%v panic=%v", i, op.Op, vs.String(), shortHex(val), werr, pv)
			if pv != nil {
				vsPanic(x, i, op.Op, pv)
				return hist
			}
			if werr != nil && fired() > fired0 {
				// the device failed inside this write and the store said so: the variable is indeterminate until the next acknowledged write
				delete(model, op.Var)
				has[op.Var] = false
				writes[op.Var] = 0
				x.Probe("write_failed_under_fault")
				hist = append(hist, porcupine.Operation{ClientId: 0, Input: regIn{Unset: true, Var: op.Var}, Call: call, Output: regOut{}, Return: seq})
				seq++
				continue
			}
			if werr != nil {
				x.Fail("register.write_succeeds", i, op.Op, "write of %d bytes to %s failed: %v", len(val), vs.String(), werr)
				return hist
			}
			if fired() > fired0 {
				x.Probe("write_acknowledged_although_a_fault_fired")
			}
			model[op.Var], has[op.Var] = expect, true
			writes[op.Var]++
			if len(val) == 0 {
				x.Probe("write_empty_value")
			}
			hist = append(hist, porcupine.Operation{ClientId: 0, Input: regIn{Write: true, Var: op.Var, Val: string(expect)}, Call: call, Output: regOut{}, Return: seq})
			seq++
		case "Reopen":
			// TestFS.Open() composes the store afresh from the files given to With(): everything written since is gone
			api = tfs.Open()
			wrap()
			for k := range model {
				delete(model, k)
				delete(has, k)
			}
			for k, v := range prepop {
				model[k], has[k] = v, true
			}
			for k := range writes {
				writes[k] = 0
			}
			for k := range c.Vars {
				in := regIn{Write: true, Var: k, Val: string(prepop[k])}
				if _, ok := prepop[k]; !ok {
					in = regIn{Unset: true, Var: k}
				}
				hist = append(hist, porcupine.Operation{ClientId: 0, Input: in, Call: seq, Output: regOut{}, Return: seq + 1})
				seq += 2
			}
			x.Logf("op %d Reopen", i)
			x.Probe("reopen")
			continue
		case "GetVar", "GetVarInto", "GetVarWithAttributes", "Typed":
			var got []byte
			var gotShape string
			var rerr error
			var gotAttrs attributes.Attributes
			func() {
				defer func() { pv = recover() }()
				switch op.Op {
				case "GetVarInto":
					rerr = api.GetVar(v, &shared)
					if rerr == nil {
						got = shared.Bytes()
						gotShape = libStructure(&shared)
					}
					x.Probe("read_into_used_destination")
				case "GetVar":
					if i%2 == 0 {
						ks := &keepSink{}
						rerr = api.GetVar(v, ks)
						got = ks.Copy
						if rerr == nil {
							kept = append(kept, ks)
						}
					} else {
						var s rawSink
						rerr = api.GetVar(v, &s)
						got = s.Got
					}
				case "GetVarWithAttributes":
					var s rawSink
					gotAttrs, rerr = api.GetVarWithAttributes(v, &s)
					got = s.Got
				case "Typed":
					var db *signature.SignatureDatabase
					switch vs.Sym {
					case "PK":
						db, rerr = api.GetPK()
					case "KEK":
						db, rerr = api.GetKEK()
					case "Db":
						db, rerr = api.Getdb()
					case "Dbx":
						db, rerr = api.Getdbx()
					default:
						harnessf("typed read of %s", vs.String())
					}
					if rerr == nil && db != nil {
						got = db.Bytes()
						gotShape = libStructure(db)
					}
				}
			}()
			x.Logf("op %d %s %s -> %s err=%v panic=%v", i, op.Op, vs.String(), shortHex(got), rerr, pv)
			if pv != nil {
				vsPanic(x, i, op.Op, pv)
				return hist
			}
			if rerr != nil && fired() > fired0 {
				x.Probe("read_failed_under_fault") // allowed: the device failed inside this read and the store said so
				continue
			}
			if (op.Op == "Typed" || op.Op == "GetVarInto") && has[op.Var] {
				if _, derr := refESLDecode(model[op.Var]); derr != nil {
					// the variable holds bytes that are not a signature database: what a database decoder makes of them is
					// another property's business (it survived them: no panic above)
					x.Probe("typed_read_of_a_non_database_value")
					continue
				}
			}
			out := regOut{Ok: rerr == nil, Val: string(got)}
			hist = append(hist, porcupine.Operation{ClientId: 0, Input: regIn{Var: op.Var}, Call: call, Output: out, Return: seq})
			seq++
			if !has[op.Var] {
				x.Probe("read_of_unwritten")
				if !touched[op.Var] && !c.Faulty && rerr == nil && len(got) > 0 {
					// nothing was ever written to this variable and the store was not given it: there is nothing to read
					x.Fail("register.unwritten_is_absent", i, op.Op, "read of %s, which was never written and is not among the files the store was given, returned %s", vs.String(), shortHex(got))
					return hist
				}
				continue
			}
			if writes[op.Var] >= 2 {
				readAfter2 = true
			}
			want := model[op.Var]
			if rerr != nil {
				x.Fail("register.read_equals_last_write", i, op.Op, "read of %s failed (%v); the most recent write stored %d bytes", vs.String(), rerr, len(want))
				return hist
			}
			if !bytes.Equal(got, want) {
				x.Fail("register.read_equals_last_write", i, op.Op, "read of %s returned %s, the most recent write stored %s", vs.String(), shortHex(got), shortHex(want))
				return hist
			}
			if gotShape != "" {
				if ls, derr := refESLDecode(want); derr == nil && refStructure(ls) != gotShape {
					x.Fail("register.read_equals_last_write", i, op.Op, "read of %s encodes to the bytes that were written, but it is not the database that was written: lists/entries read %s, written %s", vs.String(), gotShape, refStructure(ls))
					return hist
				}
			}
			if op.Op == "GetVarWithAttributes" && gotAttrs != v.Attributes && writes[op.Var] > 0 {
				x.Fail("register.read_equals_last_write", i, op.Op, "attributes %#x, written with %#x", gotAttrs, v.Attributes)
				return hist
			}
		default:
			harnessf("varstore: unknown op %q", op.Op)
		}
		// abstract state: per variable, (length class of the current value)
		st := []any{"s"}
		for k := range c.Vars {
			st = append(st, has[k], len(model[k]))
		}
		x.State(h64(st...))
	}
	// what earlier reads handed out is still what it was
	for k, ks := range kept {
		if !bytes.Equal(ks.Kept, ks.Copy) {
			x.Fail("register.read_value_stays_valid", len(ops)-1, "GetVar", "the value that read %d of this run handed to its decoder changed afterwards: was %s, is now %s", k, shortHex(ks.Copy), shortHex(ks.Kept))
			return hist
		}
	}
	// the second store still holds what was written to it
	for _, k := range sortedIntKeys(second) {
		var sink rawSink
		v := c.Vars[k].Var()
		if vsStoreStrips(v.Name) {
			continue // (its values are not signature databases: the shim leaves them alone, but keep to ordinary variables)
		}
		if err := api2.GetVar(v, &sink); err != nil || !bytes.Equal(sink.Got, second[k]) {
			x.Fail("register.other_store_untouched", len(ops)-1, "GetVar", "a second store opened beside this one lost its value of %s: read %s (err %v), it was written %s", c.Vars[k].String(), shortHex(sink.Got), err, shortHex(second[k]))
			return hist
		}
	}
	x.Nontriv = readAfter2
	return hist
}

type vsObj struct {
	m     efivar.Marshallable
	bytes []byte
}

// vsStoreStrips: the in-memory store removes an authentication descriptor from
// values written to variables with these names.
func vsStoreStrips(name string) bool {
	switch name {
	case "PK", "KEK", "db", "dbx":
		return true
	}
	return false
}

func vsIsSecure(v VarSpec) bool {
	for _, s := range vsSecure {
		if v.Sym == s {
			return true
		}
	}
	return false
}

func vsPanic(x *X, i int, kind string, pv any) {
	if he, ok := pv.(*HarnessError); ok {
		panic(he)
	}
	x.Fail("register.no_panic", i, kind, "operation panicked: %v", pv)
}

var _ = fmt.Sprint
var _ efivar.Efivar
var _ *efivarfs.Efivarfs

func sortedIntKeys(m map[int][]byte) []int {
	var ks []int
	for k := range m {
		ks = append(ks, k)
	}
	sort.Ints(ks)
	return ks
}
