package sim

import (
	"fmt"
	"testing"
	"testing/synctest"
	"time"
	_ "time/tzdata" // embedded zone database: the sandbox need not have one
)

// bubbleEpoch is the instant at which every synctest bubble starts.
var bubbleEpoch = time.Date(2000, 1, 1, 0, 0, 0, 0, time.UTC)

// simMaxInstant is the last instant the simulated clock is set to: from 2050
// on signingTime cannot be encoded as UTCTime (DESIGN.md section 6).
var simMaxInstant = time.Date(2049, 12, 31, 23, 59, 59, 0, time.UTC)

// inBubble runs fn inside a synctest bubble whose fake clock has been advanced
// to `instant` (UTC) and, when zone != "", with time.Local set to that zone.
// Every time.Now() issued by library code inside fn reads the simulated clock.
// A panic inside fn is returned as a value (pv) so that the caller decides
// whether it is a harness error or an observation.
func inBubble(t *testing.T, instant time.Time, zone string, fn func()) (pv any) {
	var loc *time.Location
	if zone != "" {
		var err error
		loc, err = loadZone(zone)
		if err != nil {
			harnessf("zone %q: %v", zone, err)
		}
	}
	old := time.Local
	defer func() { time.Local = old }()
	synctest.Test(t, func(t *testing.T) {
		defer func() {
			if r := recover(); r != nil {
				pv = r
			}
		}()
		if loc != nil {
			time.Local = loc
		}
		if d := instant.Sub(time.Now()); d > 0 {
			time.Sleep(d)
		} else if d < 0 {
			harnessf("simulated instant %v precedes the bubble epoch", instant)
		}
		fn()
	})
	return pv
}

// loadZone understands IANA names and fixed offsets written "+HH:MM"/"-HH:MM".
func loadZone(z string) (*time.Location, error) {
	if z == "UTC" {
		return time.UTC, nil
	}
	if len(z) == 6 && (z[0] == '+' || z[0] == '-') && z[3] == ':' {
		var h, m int
		if _, err := fmt.Sscanf(z[1:], "%02d:%02d", &h, &m); err != nil {
			return nil, err
		}
		off := h*3600 + m*60
		if z[0] == '-' {
			off = -off
		}
		return time.FixedZone(z, off), nil
	}
	return time.LoadLocation(z)
}
