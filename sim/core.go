package sim

import (
	"crypto/sha256"
	"encoding/hex"
	"encoding/json"
	"fmt"
	"hash"
	"sort"
	"testing"
)

// Trace is the complete input of one simulated run. Replaying a Trace is a
// pure function of it and of the code under test; the seed is kept only as
// provenance. Ops, Faults and Schedule are lists so that the driver can shrink
// them by dropping elements without knowing what they mean.
type Trace struct {
	Property string            `json:"property"`
	Engine   string            `json:"engine"`
	Seed     uint64            `json:"seed"`
	Run      int               `json:"run"`
	Tier     string            `json:"tier,omitempty"`
	Cfg      json.RawMessage   `json:"cfg"`
	Ops      []json.RawMessage `json:"ops"`
	Faults   []json.RawMessage `json:"faults"`
	Schedule []json.RawMessage `json:"schedule"`
	// Warmup lists run indices of the same (seed, tier, engine) that are
	// executed in the same process before this trace (history that matters
	// only if the code under test keeps process-global state).
	Warmup []int `json:"warmup,omitempty"`

	// Filled in on reports only.
	Violation     *Violation     `json:"violation,omitempty"`
	EventLogSHA   string         `json:"event_log_sha256,omitempty"`
	MinimisedFrom map[string]int `json:"minimised_from,omitempty"`
	Note          string         `json:"note,omitempty"`
}

// Violation names what failed. Oracle+OpKind is the violation class that has
// to persist while a trace is shrunk and that a replay has to reproduce.
type Violation struct {
	Oracle  string `json:"oracle"`
	OpIndex int    `json:"op_index"`
	OpKind  string `json:"op_kind"`
	Detail  string `json:"detail"`
	// Sig is the structural signature matched against known_findings.json.
	Sig map[string]string `json:"sig,omitempty"`
	// Nondet: part of the run was ordered by the Go runtime, not by the seed (a client released from a synchronisation
	// primitive ran beside the current one up to its next yield point): a replay has to show the same violation class,
	// its event log may differ.
	Nondet bool `json:"nondet,omitempty"`
}

func (v *Violation) Class() string { return v.Oracle + "/" + v.OpKind }

// X is the per-run execution context handed to an engine.
type X struct {
	T        *testing.T
	h        hash.Hash
	lines    []string
	keep     bool
	nlog     int
	Faults   map[string]int // fault kinds that actually fired
	Probes   map[string]int // named rare-branch counters
	States   []uint64       // abstract model states visited (hashes)
	SchedKey uint64         // hash of the context-switch list (sched engine)
	Steps    int
	Nontriv  bool
	DKey     string // distinctness key; defaults to the event-log hash
	SimFrom  int64  // simulated instants touched (unix seconds), 0 if none
	SimTo    int64
	Viol     *Violation
	Nondet   bool
}

func newX(t *testing.T, keep bool) *X {
	return &X{T: t, h: sha256.New(), keep: keep, Faults: map[string]int{}, Probes: map[string]int{}}
}

// Logf appends one event to the run's event log. It never draws from the
// PRNG and never reads a clock.
func (x *X) Logf(format string, a ...any) {
	s := fmt.Sprintf(format, a...)
	x.h.Write([]byte(s))
	x.h.Write([]byte{'\n'})
	x.nlog++
	if x.keep {
		x.lines = append(x.lines, s)
	}
}

func (x *X) LogHash() string { return hex.EncodeToString(x.h.Sum(nil)) }

// Fail records the first violation of the run.
func (x *X) Fail(oracle string, opIndex int, opKind string, format string, a ...any) {
	if x.Viol != nil {
		return
	}
	d := fmt.Sprintf(format, a...)
	if len(d) > 600 {
		d = d[:600] + "…"
	}
	x.Viol = &Violation{Oracle: oracle, OpIndex: opIndex, OpKind: opKind, Detail: d}
	x.Logf("VIOLATION %s op=%d kind=%s %s", oracle, opIndex, opKind, d)
}

func (x *X) Failed() bool { return x.Viol != nil }

func (x *X) Fault(kind string) { x.Faults[kind]++ }
func (x *X) Probe(name string) { x.Probes[name]++ }
func (x *X) State(h uint64)    { x.States = append(x.States, h) }
func (x *X) Sim(unix int64) {
	if x.SimFrom == 0 || unix < x.SimFrom {
		x.SimFrom = unix
	}
	if unix > x.SimTo {
		x.SimTo = unix
	}
}

// Engine is one simulated world plus its oracle.
type Engine interface {
	Name() string
	Property() string
	// Plan returns how many runs the tier consists of for this seed.
	Plan(seed uint64, tier string) int
	// Gen derives run number `run` from the seed. Deterministic.
	Gen(seed uint64, tier string, run int) *Trace
	// Exec executes a trace against the real code and judges it.
	Exec(tr *Trace, x *X)
}

var engines = map[string]Engine{}

func register(e Engine) { engines[e.Name()] = e }

func engineNames() []string {
	var n []string
	for k := range engines {
		n = append(n, k)
	}
	sort.Strings(n)
	return n
}

// ---- small helpers used by every engine ----

func mustJSON(v any) json.RawMessage {
	b, err := json.Marshal(v)
	if err != nil {
		panic(err)
	}
	return b
}

func rawList[T any](xs []T) []json.RawMessage {
	out := make([]json.RawMessage, len(xs))
	for i := range xs {
		out[i] = mustJSON(xs[i])
	}
	return out
}

func unrawList[T any](rs []json.RawMessage) ([]T, error) {
	out := make([]T, len(rs))
	for i := range rs {
		if err := json.Unmarshal(rs[i], &out[i]); err != nil {
			return nil, fmt.Errorf("element %d: %w", i, err)
		}
	}
	return out, nil
}

func h64(parts ...any) uint64 {
	h := sha256.New()
	for _, p := range parts {
		fmt.Fprintf(h, "%v|", p)
	}
	s := h.Sum(nil)
	var v uint64
	for i := 0; i < 8; i++ {
		v = v<<8 | uint64(s[i])
	}
	return v
}

func shortHex(b []byte) string {
	if len(b) <= 12 {
		return hex.EncodeToString(b)
	}
	s := sha256.Sum256(b)
	return fmt.Sprintf("%s…(%d,sha=%s)", hex.EncodeToString(b[:6]), len(b), hex.EncodeToString(s[:4]))
}

// HarnessError marks a defect of the machinery itself (bad trace, oracle
// inconsistency). The worker turns it into exit status 2, never a violation.
type HarnessError struct{ Msg string }

func (e *HarnessError) Error() string { return "harness: " + e.Msg }

func harnessf(format string, a ...any) {
	panic(&HarnessError{fmt.Sprintf(format, a...)})
}

// planT is the *testing.T of the worker; planning phases that need a
// synctest bubble borrow it.
var planT *testing.T
