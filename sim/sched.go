package sim

import (
	"crypto/sha256"
	"fmt"
	"reflect"
	"runtime"
	"sort"
	"strings"
	"sync"
	"time"
	"unsafe"
)

// Switch is one scheduling decision: at the Yield-th yield point of the run,
// hand the processor to the Next-th runnable client (counted cyclically from
// the client after the current one). Yield points not listed continue with the
// running client. The list is what is logged, shrunk and replayed.
type Switch struct {
	Yield int `json:"yield"`
	Next  int `json:"next"`
}

// Sched serialises real goroutines: exactly one client runs at a time, and
// the only places where the processor changes hands are yield points, client
// termination and — when Monitor is set — the moment the running client blocks
// in a synchronisation primitive the scheduler does not own (a mutex held by a
// parked client, a condition variable, a channel).
type Sched struct {
	x        *X
	plan     map[int]int
	wake     []chan struct{}
	done     []bool
	cur      int
	nyield   int
	finished chan struct{}
	Switches []Switch // context switches that actually happened
	sites    map[string]int
	active   bool
	alive    int
	nblocked int // consecutive forced hand-overs without progress

	// Monitor: watch the running client from outside (real time; not for use inside a synctest bubble).
	Monitor  bool
	mu       sync.Mutex // guards everything above once the monitor runs
	gids     []uint64   // goroutine id per client
	prim     []bool     // client is blocked in a primitive (or was, and has not reached a yield point since)
	anyPrim  bool
	progress uint64
	// Nondet: a client was released from a primitive by another client and ran beside it up to its next yield point;
	// the order of events in that stretch is the Go runtime's choice, not the seed's.
	Nondet   bool
	Deadlock string
	finOnce  sync.Once
	stackBuf []byte
}

func NewSched(x *X, nclients int, sw []Switch) *Sched {
	s := &Sched{x: x, plan: map[int]int{}, finished: make(chan struct{}), sites: map[string]int{}}
	for _, w := range sw {
		s.plan[w.Yield] = w.Next
	}
	for i := 0; i < nclients; i++ {
		s.wake = append(s.wake, make(chan struct{}, 1))
		s.done = append(s.done, false)
		s.gids = append(s.gids, 0)
		s.prim = append(s.prim, false)
	}
	s.alive = nclients
	return s
}

// pick returns the k-th runnable client after cur (cyclically), or -1. Clients
// blocked in a primitive are not runnable.
func (s *Sched) pick(k int) int {
	var run []int
	n := len(s.done)
	for i := 1; i <= n; i++ {
		c := (s.cur + i) % n
		if !s.done[c] && !s.prim[c] {
			run = append(run, c)
		}
	}
	if len(run) == 0 {
		return -1
	}
	if k < 0 {
		k = -k
	}
	return run[k%len(run)]
}

// goid is the id of the calling goroutine (from the header of its stack trace).
func goid() uint64 {
	var buf [64]byte
	n := runtime.Stack(buf[:], false)
	// "goroutine 123 [running]:"
	var id uint64
	for _, ch := range buf[10:n] {
		if ch < '0' || ch > '9' {
			break
		}
		id = id*10 + uint64(ch-'0')
	}
	return id
}

// me identifies the calling client, -1 when the caller is none of them (a goroutine the code under test started itself:
// it is not the scheduler's to park; it runs beside the clients as the Go runtime lets it).
func (s *Sched) me() int {
	g := goid()
	for i, id := range s.gids {
		if id == g {
			return i
		}
	}
	return -1
}

// parkReleased: a client that was blocked in a primitive has been released by another client and reached a
// scheduler entry point while it is not the current client: it waits for its turn like everybody else.
func (s *Sched) parkReleased(me int, site string) {
	s.prim[me] = false
	s.Nondet = true
	s.progress++
	s.x.Probe("released_from_primitive")
	if s.cur < 0 {
		// nobody holds the processor (everybody else is blocked or done): take it
		s.cur = me
		return
	}
	s.mu.Unlock()
	<-s.wake[me]
	s.mu.Lock()
}

// Yield is called by the running client (from library code, through a seam or
// an inserted yield point).
func (s *Sched) Yield(site string) {
	if !s.active {
		return
	}
	s.mu.Lock()
	me := s.me()
	if me < 0 {
		s.foreign()
		s.mu.Unlock()
		return
	}
	if me != s.cur {
		s.parkReleased(me, site)
		// now current; fall through to the ordinary yield
	}
	ord := s.nyield
	s.nyield++
	s.progress++
	s.sites[site]++
	s.nblocked = 0
	k, ok := s.plan[ord]
	if !ok {
		s.mu.Unlock()
		return
	}
	next := s.pick(k)
	if next < 0 || next == s.cur {
		s.mu.Unlock()
		return
	}
	s.Switches = append(s.Switches, Switch{Yield: ord, Next: next})
	s.x.Logf("switch at yield %d (%s): client %d -> %d", ord, site, me, next)
	s.cur = next
	s.mu.Unlock()
	s.wake[next] <- struct{}{}
	<-s.wake[me]
}

// Blocked is called by the running client when it could not take a lock: the
// holder is a parked client, so the processor must change hands now. The
// choice is a function of the scheduler state, hence replayable.
func (s *Sched) Blocked(site string) {
	if !s.active {
		runtime.Gosched()
		return
	}
	s.mu.Lock()
	me := s.me()
	if me < 0 {
		s.foreign()
		s.mu.Unlock()
		runtime.Gosched()
		return
	}
	if me != s.cur {
		s.parkReleased(me, site)
	}
	s.nblocked++
	s.progress++
	next := s.pick(0)
	if next < 0 || next == s.cur || s.nblocked > 20000 {
		s.mu.Unlock()
		panic(fmt.Sprintf("deadlock: client %d waits for a lock at %s and no other client can make progress", me, site))
	}
	if s.nblocked <= 3 {
		s.x.Logf("forced switch (lock busy at %s): client %d -> %d", site, me, next)
	}
	s.x.Probe("lock_contention_handover")
	s.cur = next
	s.mu.Unlock()
	s.wake[next] <- struct{}{}
	<-s.wake[me]
}

// foreign: a yield point was reached by a goroutine that is not a client.
func (s *Sched) foreign() {
	if !s.Nondet {
		s.x.Logf("a goroutine started by the code under test reached a yield point; it is not scheduled by the seed")
	}
	s.Nondet = true
	s.progress++
	s.x.Probes["library_spawned_goroutine"]++
}

func (s *Sched) finish() { s.finOnce.Do(func() { close(s.finished) }) }

// Run starts one goroutine per client body and returns when all are done (or when no client can make progress).
func (s *Sched) Run(bodies []func()) {
	s.active = true
	ready := make(chan struct{}, len(bodies))
	for i := range bodies {
		i := i
		go func() {
			s.gids[i] = goid()
			ready <- struct{}{}
			<-s.wake[i]
			defer func() {
				// termination: hand over to the next runnable client
				s.mu.Lock()
				if i != s.cur {
					// released from a primitive and ran to its end beside the current client
					s.Nondet = true
					s.done[i] = true
					s.prim[i] = false
					s.alive--
					s.progress++
					last := s.alive == 0
					s.mu.Unlock()
					if last {
						s.active = false
						s.finish()
					}
					return
				}
				s.done[i] = true
				s.prim[i] = false
				s.alive--
				s.progress++
				if s.alive == 0 {
					s.active = false
					s.mu.Unlock()
					s.finish()
					return
				}
				next := s.pick(0)
				if next < 0 {
					// everybody else is blocked in a primitive: the monitor decides what that means
					s.cur = -1
					s.mu.Unlock()
					return
				}
				s.cur = next
				s.mu.Unlock()
				s.wake[next] <- struct{}{}
			}()
			bodies[i]()
		}()
	}
	for range bodies {
		<-ready
	}
	s.cur = 0
	s.wake[0] <- struct{}{}
	if !s.Monitor {
		<-s.finished
		return
	}
	s.watch()
}

// blockingState reports whether a goroutine status (the text between the brackets of a stack-trace header) is that of
// a goroutine waiting in a synchronisation primitive.
func blockingState(st string) bool {
	for _, p := range []string{"chan receive", "chan send", "select", "sync.Mutex.Lock", "sync.RWMutex.RLock", "sync.RWMutex.Lock", "sync.Cond.Wait",
		"sync.WaitGroup.Wait", "semacquire", "sleep"} {
		if strings.HasPrefix(st, p) {
			return true
		}
	}
	return false
}

// goroutineState finds the status of goroutine id and whether it is inside the scheduler itself.
func (s *Sched) goroutineState(id uint64) (state string, inSched bool) {
	if s.stackBuf == nil {
		s.stackBuf = make([]byte, 1<<20)
	}
	buf := s.stackBuf
	n := runtime.Stack(buf, true)
	dump := string(buf[:n])
	hdr := fmt.Sprintf("goroutine %d [", id)
	i := strings.Index(dump, hdr)
	if i < 0 || (i > 0 && dump[i-1] != '\n') {
		if i = strings.Index(dump, "\n"+hdr); i < 0 {
			return "", false
		}
		i++
	}
	rest := dump[i+len(hdr):]
	j := strings.IndexAny(rest, "],")
	if j < 0 {
		return "", false
	}
	state = rest[:j]
	body := rest
	if k := strings.Index(rest, "\n\n"); k >= 0 {
		body = rest[:k]
	}
	// blocked inside the scheduler's own hand-over is not blocked in the code under test
	lines := strings.SplitN(body, "\n", 8)
	for _, ln := range lines[1:] {
		if strings.HasPrefix(ln, "verif/sim.(*Sched).") {
			return state, true
		}
		if !strings.HasPrefix(ln, "\t") && !strings.HasPrefix(ln, "runtime.") && !strings.HasPrefix(ln, "sync.") && !strings.HasPrefix(ln, "internal/") && !strings.HasPrefix(ln, "time.") {
			break
		}
	}
	return state, false
}

// watch is the monitor: when the current client makes no progress and its goroutine sits in a synchronisation
// primitive, the processor is handed to the next parked client (a deterministic function of the scheduler state);
// when nobody is left to run, that is a deadlock.
func (s *Sched) watch() {
	var last uint64
	still, seenBlocked := 0, 0
	for {
		select {
		case <-s.finished:
			return
		case <-time.After(2 * time.Millisecond):
		}
		s.mu.Lock()
		if s.progress != last {
			last, still, seenBlocked = s.progress, 0, 0
			s.mu.Unlock()
			continue
		}
		still++
		if still < 3 {
			s.mu.Unlock()
			continue
		}
		if s.cur < 0 {
			// the last runnable client ended; the others sit in primitives. Were they released in the meantime?
			allBlocked := true
			for c := range s.done {
				if s.done[c] {
					continue
				}
				if st, in := s.goroutineState(s.gids[c]); !blockingState(st) || in {
					allBlocked = false
				}
			}
			// two seconds without any progress (a worker goroutine of the code under test may be busy on the clients' behalf)
			if allBlocked && still >= 1000 {
				s.deadlock("every remaining client waits in a synchronisation primitive and nobody is left to release them")
				s.mu.Unlock()
				return
			}
			s.mu.Unlock()
			continue
		}
		st, in := s.goroutineState(s.gids[s.cur])
		if in || !blockingState(st) {
			seenBlocked = 0
			s.mu.Unlock()
			continue
		}
		// (a loaded machine: be sure — the same client, in a blocking state, on five polls in a row without any progress)
		if seenBlocked++; seenBlocked < 5 {
			s.mu.Unlock()
			continue
		}
		seenBlocked = 0
		// the running client is blocked in a primitive
		me := s.cur
		s.prim[me] = true
		s.anyPrim = true
		s.progress++
		next := s.pick(0)
		s.x.Probe("blocked_in_primitive_handover")
		if next < 0 {
			// nobody is parked at a yield point: either somebody released from a primitive is on its way, or it is a deadlock
			s.cur = -1
			s.x.Logf("client %d blocks in a primitive (%s); no parked client to run", me, st)
			s.mu.Unlock()
			continue
		}
		s.x.Logf("client %d blocks in a primitive (%s): processor -> client %d", me, st, next)
		s.cur = next
		s.mu.Unlock()
		s.wake[next] <- struct{}{}
	}
}

func (s *Sched) deadlock(why string) {
	s.Deadlock = why
	s.active = false
	s.x.Logf("deadlock: %s", why)
	s.finish()
}

func (s *Sched) key() uint64 {
	if len(s.Switches) == 0 {
		return 0
	}
	return h64(fmt.Sprint(s.Switches))
}

// ---------------------------------------------------------------- deep dump

// deepDump renders everything reachable from v — unexported fields, buffers,
// reader cursors — as text, so that "the object was not modified or consumed"
// can be decided by comparing two dumps. Byte slices are hashed.
func deepDump(v any) string {
	var b strings.Builder
	seen := map[uintptr]bool{}
	dumpValue(&b, reflect.ValueOf(v), seen, 0)
	return b.String()
}

func dumpValue(b *strings.Builder, v reflect.Value, seen map[uintptr]bool, depth int) {
	if depth > 40 {
		b.WriteString("<deep>")
		return
	}
	if !v.IsValid() {
		b.WriteString("<invalid>")
		return
	}
	switch v.Kind() {
	case reflect.Ptr:
		if v.IsNil() {
			b.WriteString("nil")
			return
		}
		p := v.Pointer()
		if seen[p] {
			b.WriteString("<seen>")
			return
		}
		seen[p] = true
		b.WriteString("&")
		dumpValue(b, v.Elem(), seen, depth+1)
	case reflect.Interface:
		if v.IsNil() {
			b.WriteString("nil")
			return
		}
		fmt.Fprintf(b, "(%s)", v.Elem().Type())
		e := v.Elem()
		if e.Kind() != reflect.Ptr && e.CanAddr() == false {
			// copy into an addressable value so that unexported fields can be read
			c := reflect.New(e.Type()).Elem()
			c.Set(e)
			e = c
		}
		dumpValue(b, e, seen, depth+1)
	case reflect.Struct:
		if v.Type().PkgPath() == "verif/sim" {
			switch v.Type().Name() {
			case "Plane", "X", "Sched":
				b.WriteString("<harness>")
				return
			}
		}
		b.WriteString(v.Type().String())
		b.WriteString("{")
		for i := 0; i < v.NumField(); i++ {
			f := v.Field(i)
			if !f.CanInterface() {
				if f.CanAddr() {
					f = reflect.NewAt(f.Type(), unsafe.Pointer(f.UnsafeAddr())).Elem()
				} else {
					fmt.Fprintf(b, "%s:<unreadable> ", v.Type().Field(i).Name)
					continue
				}
			}
			fmt.Fprintf(b, "%s:", v.Type().Field(i).Name)
			dumpValue(b, f, seen, depth+1)
			b.WriteString(" ")
		}
		b.WriteString("}")
	case reflect.Slice:
		if v.IsNil() {
			b.WriteString("nil[]")
			return
		}
		if v.Type().Elem().Kind() == reflect.Uint8 {
			by := v.Bytes()
			full := by[:cap(by)]
			s := sha256.Sum256(full)
			fmt.Fprintf(b, "bytes(len=%d,cap=%d,sha=%x)", len(by), cap(by), s[:6])
			return
		}
		fmt.Fprintf(b, "[%d/%d:", v.Len(), v.Cap())
		for i := 0; i < v.Len(); i++ {
			dumpValue(b, v.Index(i), seen, depth+1)
			b.WriteString(",")
		}
		b.WriteString("]")
	case reflect.Array:
		b.WriteString("[")
		for i := 0; i < v.Len(); i++ {
			dumpValue(b, v.Index(i), seen, depth+1)
			b.WriteString(",")
		}
		b.WriteString("]")
	case reflect.Map:
		keys := v.MapKeys()
		ks := make([]string, len(keys))
		m := map[string]reflect.Value{}
		for i, k := range keys {
			ks[i] = fmt.Sprint(k)
			m[ks[i]] = v.MapIndex(k)
		}
		sort.Strings(ks)
		b.WriteString("map{")
		for _, k := range ks {
			b.WriteString(k + ":")
			dumpValue(b, m[k], seen, depth+1)
			b.WriteString(",")
		}
		b.WriteString("}")
	case reflect.String:
		fmt.Fprintf(b, "%q", v.String())
	case reflect.Bool:
		fmt.Fprint(b, v.Bool())
	case reflect.Int, reflect.Int8, reflect.Int16, reflect.Int32, reflect.Int64:
		fmt.Fprint(b, v.Int())
	case reflect.Uint, reflect.Uint8, reflect.Uint16, reflect.Uint32, reflect.Uint64, reflect.Uintptr:
		fmt.Fprint(b, v.Uint())
	case reflect.Float32, reflect.Float64:
		fmt.Fprint(b, v.Float())
	case reflect.Func, reflect.Chan, reflect.UnsafePointer:
		b.WriteString("<" + v.Kind().String() + ">")
	default:
		b.WriteString("<?>")
	}
}
