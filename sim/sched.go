package sim

import (
	"crypto/sha256"
	"fmt"
	"reflect"
	"runtime"
	"sort"
	"strings"
	"unsafe"
)

// Switch is one scheduling decision: at the Yield-th yield point of the run,
// hand the processor to the Next-th runnable client (counted cyclically from
// the client after the current one). Yield points not listed continue with the
// running client. The list is what is logged, shrunk and replayed.
type Switch struct {
	Yield int `json:"yield"`
	Next  int `json:"next"`
}

// Sched serialises real goroutines: exactly one client runs at a time, and
// the only places where the processor changes hands are yield points and
// client termination.
type Sched struct {
	x        *X
	plan     map[int]int
	wake     []chan struct{}
	done     []bool
	cur      int
	nyield   int
	finished chan struct{}
	Switches []Switch // context switches that actually happened
	sites    map[string]int
	active   bool
	alive    int
	nblocked int // consecutive forced hand-overs without progress
}

func NewSched(x *X, nclients int, sw []Switch) *Sched {
	s := &Sched{x: x, plan: map[int]int{}, finished: make(chan struct{}), sites: map[string]int{}}
	for _, w := range sw {
		s.plan[w.Yield] = w.Next
	}
	for i := 0; i < nclients; i++ {
		s.wake = append(s.wake, make(chan struct{}, 1))
		s.done = append(s.done, false)
	}
	s.alive = nclients
	return s
}

// pick returns the k-th runnable client after cur (cyclically), or -1.
func (s *Sched) pick(k int) int {
	var run []int
	n := len(s.done)
	for i := 1; i <= n; i++ {
		c := (s.cur + i) % n
		if !s.done[c] {
			run = append(run, c)
		}
	}
	if len(run) == 0 {
		return -1
	}
	if k < 0 {
		k = -k
	}
	return run[k%len(run)]
}

// Yield is called by the running client (from library code, through a seam or
// an inserted yield point).
func (s *Sched) Yield(site string) {
	if !s.active {
		return
	}
	ord := s.nyield
	s.nyield++
	s.sites[site]++
	s.nblocked = 0
	k, ok := s.plan[ord]
	if !ok {
		return
	}
	next := s.pick(k)
	if next < 0 || next == s.cur {
		return
	}
	me := s.cur
	s.Switches = append(s.Switches, Switch{Yield: ord, Next: next})
	s.x.Logf("switch at yield %d (%s): client %d -> %d", ord, site, me, next)
	s.cur = next
	s.wake[next] <- struct{}{}
	<-s.wake[me]
}

// Blocked is called by the running client when it could not take a lock: the
// holder is a parked client, so the processor must change hands now. The
// choice is a function of the scheduler state, hence replayable.
func (s *Sched) Blocked(site string) {
	if !s.active {
		runtime.Gosched()
		return
	}
	s.nblocked++
	next := s.pick(0)
	if next < 0 || next == s.cur || s.nblocked > 20000 {
		panic(fmt.Sprintf("deadlock: client %d waits for a lock at %s and no other client can make progress", s.cur, site))
	}
	me := s.cur
	if s.nblocked <= 3 {
		s.x.Logf("forced switch (lock busy at %s): client %d -> %d", site, me, next)
	}
	s.x.Probe("lock_contention_handover")
	s.cur = next
	s.wake[next] <- struct{}{}
	<-s.wake[me]
}

// Run starts one goroutine per client body and returns when all are done.
func (s *Sched) Run(bodies []func()) {
	s.active = true
	for i := range bodies {
		i := i
		go func() {
			<-s.wake[i]
			defer func() {
				// termination: hand over to the next runnable client
				s.done[i] = true
				s.alive--
				if s.alive == 0 {
					s.active = false
					close(s.finished)
					return
				}
				next := s.pick(0)
				s.cur = next
				s.wake[next] <- struct{}{}
			}()
			bodies[i]()
		}()
	}
	s.cur = 0
	s.wake[0] <- struct{}{}
	<-s.finished
}

func (s *Sched) key() uint64 {
	if len(s.Switches) == 0 {
		return 0
	}
	return h64(fmt.Sprint(s.Switches))
}

// ---------------------------------------------------------------- deep dump

// deepDump renders everything reachable from v — unexported fields, buffers,
// reader cursors — as text, so that "the object was not modified or consumed"
// can be decided by comparing two dumps. Byte slices are hashed.
func deepDump(v any) string {
	var b strings.Builder
	seen := map[uintptr]bool{}
	dumpValue(&b, reflect.ValueOf(v), seen, 0)
	return b.String()
}

func dumpValue(b *strings.Builder, v reflect.Value, seen map[uintptr]bool, depth int) {
	if depth > 40 {
		b.WriteString("<deep>")
		return
	}
	if !v.IsValid() {
		b.WriteString("<invalid>")
		return
	}
	switch v.Kind() {
	case reflect.Ptr:
		if v.IsNil() {
			b.WriteString("nil")
			return
		}
		p := v.Pointer()
		if seen[p] {
			b.WriteString("<seen>")
			return
		}
		seen[p] = true
		b.WriteString("&")
		dumpValue(b, v.Elem(), seen, depth+1)
	case reflect.Interface:
		if v.IsNil() {
			b.WriteString("nil")
			return
		}
		fmt.Fprintf(b, "(%s)", v.Elem().Type())
		e := v.Elem()
		if e.Kind() != reflect.Ptr && e.CanAddr() == false {
			// copy into an addressable value so that unexported fields can be read
			c := reflect.New(e.Type()).Elem()
			c.Set(e)
			e = c
		}
		dumpValue(b, e, seen, depth+1)
	case reflect.Struct:
		if v.Type().PkgPath() == "verif/sim" {
			switch v.Type().Name() {
			case "Plane", "X", "Sched":
				b.WriteString("<harness>")
				return
			}
		}
		b.WriteString(v.Type().String())
		b.WriteString("{")
		for i := 0; i < v.NumField(); i++ {
			f := v.Field(i)
			if !f.CanInterface() {
				if f.CanAddr() {
					f = reflect.NewAt(f.Type(), unsafe.Pointer(f.UnsafeAddr())).Elem()
				} else {
					fmt.Fprintf(b, "%s:<unreadable> ", v.Type().Field(i).Name)
					continue
				}
			}
			fmt.Fprintf(b, "%s:", v.Type().Field(i).Name)
			dumpValue(b, f, seen, depth+1)
			b.WriteString(" ")
		}
		b.WriteString("}")
	case reflect.Slice:
		if v.IsNil() {
			b.WriteString("nil[]")
			return
		}
		if v.Type().Elem().Kind() == reflect.Uint8 {
			by := v.Bytes()
			full := by[:cap(by)]
			s := sha256.Sum256(full)
			fmt.Fprintf(b, "bytes(len=%d,cap=%d,sha=%x)", len(by), cap(by), s[:6])
			return
		}
		fmt.Fprintf(b, "[%d/%d:", v.Len(), v.Cap())
		for i := 0; i < v.Len(); i++ {
			dumpValue(b, v.Index(i), seen, depth+1)
			b.WriteString(",")
		}
		b.WriteString("]")
	case reflect.Array:
		b.WriteString("[")
		for i := 0; i < v.Len(); i++ {
			dumpValue(b, v.Index(i), seen, depth+1)
			b.WriteString(",")
		}
		b.WriteString("]")
	case reflect.Map:
		keys := v.MapKeys()
		ks := make([]string, len(keys))
		m := map[string]reflect.Value{}
		for i, k := range keys {
			ks[i] = fmt.Sprint(k)
			m[ks[i]] = v.MapIndex(k)
		}
		sort.Strings(ks)
		b.WriteString("map{")
		for _, k := range ks {
			b.WriteString(k + ":")
			dumpValue(b, m[k], seen, depth+1)
			b.WriteString(",")
		}
		b.WriteString("}")
	case reflect.String:
		fmt.Fprintf(b, "%q", v.String())
	case reflect.Bool:
		fmt.Fprint(b, v.Bool())
	case reflect.Int, reflect.Int8, reflect.Int16, reflect.Int32, reflect.Int64:
		fmt.Fprint(b, v.Int())
	case reflect.Uint, reflect.Uint8, reflect.Uint16, reflect.Uint32, reflect.Uint64, reflect.Uintptr:
		fmt.Fprint(b, v.Uint())
	case reflect.Float32, reflect.Float64:
		fmt.Fprint(b, v.Float())
	case reflect.Func, reflect.Chan, reflect.UnsafePointer:
		b.WriteString("<" + v.Kind().String() + ">")
	default:
		b.WriteString("<?>")
	}
}
