package sim

import (
	"encoding/binary"
	"hash/fnv"
)

// R is the single source of choice of a simulated run. It is a SplitMix64
// stream derived from (VERIF_SEED, engine name, run index). Nothing in the
// harness draws from any other source.
type R struct{ s uint64 }

func mix64(z uint64) uint64 {
	z = (z ^ (z >> 30)) * 0xbf58476d1ce4e5b9
	z = (z ^ (z >> 27)) * 0x94d049bb133111eb
	return z ^ (z >> 31)
}

func strHash(s string) uint64 {
	h := fnv.New64a()
	h.Write([]byte(s))
	return h.Sum64()
}

// NewR derives the stream of one run.
func NewR(seed uint64, engine string, run int) *R {
	s := mix64(seed + 0x9e3779b97f4a7c15)
	s = mix64(s ^ strHash(engine))
	s = mix64(s ^ (uint64(run)+1)*0xd1342543de82ef95)
	return &R{s}
}

// Fork derives an independent sub-stream (used so that adding a draw in one
// part of a generator does not shift every later choice).
func (r *R) Fork(label string) *R {
	return &R{mix64(r.U64() ^ strHash(label))}
}

func (r *R) U64() uint64 {
	r.s += 0x9e3779b97f4a7c15
	return mix64(r.s)
}

// Intn returns a value in [0,n). n must be > 0.
func (r *R) Intn(n int) int {
	if n <= 0 {
		panic("sim: Intn with n<=0")
	}
	return int(r.U64() % uint64(n))
}

// Range returns a value in [lo,hi].
func (r *R) Range(lo, hi int) int { return lo + r.Intn(hi-lo+1) }

// Bool is true with probability num/den.
func (r *R) Chance(num, den int) bool { return r.Intn(den) < num }

func (r *R) Bool() bool { return r.U64()&1 == 1 }

func (r *R) Bytes(n int) []byte {
	b := make([]byte, n+8)
	for i := 0; i < n; i += 8 {
		binary.LittleEndian.PutUint64(b[i:], r.U64())
	}
	return b[:n]
}

// Perm returns a permutation of 0..n-1.
func (r *R) Perm(n int) []int {
	p := make([]int, n)
	for i := range p {
		p[i] = i
	}
	for i := n - 1; i > 0; i-- {
		j := r.Intn(i + 1)
		p[i], p[j] = p[j], p[i]
	}
	return p
}

func Pick[T any](r *R, xs []T) T { return xs[r.Intn(len(xs))] }

// Weighted picks index i with probability w[i]/sum(w).
func (r *R) Weighted(w []int) int {
	t := 0
	for _, x := range w {
		t += x
	}
	if t <= 0 {
		return 0
	}
	k := r.Intn(t)
	for i, x := range w {
		if k < x {
			return i
		}
		k -= x
	}
	return len(w) - 1
}
