package sim

import (
	"bytes"
	"encoding/binary"
	"fmt"

	"github.com/foxboron/go-uefi/efi/attributes"
	"github.com/foxboron/go-uefi/efi/signature"
	"github.com/foxboron/go-uefi/efi/util"
	"github.com/foxboron/go-uefi/efivar"
)

// Reference encodings written from the UEFI specification, independent of the
// library's own helpers.

// refGUIDText is the canonical lower-case registry form used in efivarfs file
// names: 8-4-4-4-12 hex digits, Data4 printed byte by byte.
func refGUIDText(g util.EFIGUID) string {
	return fmt.Sprintf("%08x-%04x-%04x-%02x%02x-%02x%02x%02x%02x%02x%02x",
		g.Data1, g.Data2, g.Data3, g.Data4[0], g.Data4[1],
		g.Data4[2], g.Data4[3], g.Data4[4], g.Data4[5], g.Data4[6], g.Data4[7])
}

// refGUIDWire is the in-memory/wire form (EFI_GUID): the three integer fields
// little-endian, then Data4 verbatim.
func refGUIDWire(g util.EFIGUID) []byte {
	b := make([]byte, 16)
	binary.LittleEndian.PutUint32(b[0:], g.Data1)
	binary.LittleEndian.PutUint16(b[4:], g.Data2)
	binary.LittleEndian.PutUint16(b[6:], g.Data3)
	copy(b[8:], g.Data4[:])
	return b
}

func guidFromWire(b []byte) util.EFIGUID {
	var g util.EFIGUID
	g.Data1 = binary.LittleEndian.Uint32(b[0:])
	g.Data2 = binary.LittleEndian.Uint16(b[4:])
	g.Data3 = binary.LittleEndian.Uint16(b[6:])
	copy(g.Data4[:], b[8:16])
	return g
}

func le32(v uint32) []byte {
	b := make([]byte, 4)
	binary.LittleEndian.PutUint32(b, v)
	return b
}

// refVarPath is the file the efivarfs contract assigns to a variable.
func refVarPath(dir, name string, g util.EFIGUID) string {
	d := dir
	for len(d) > 1 && d[len(d)-1] == '/' {
		d = d[:len(d)-1]
	}
	if d == "" {
		return name + "-" + refGUIDText(g)
	}
	if d == "/" {
		return "/" + name + "-" + refGUIDText(g)
	}
	return d + "/" + name + "-" + refGUIDText(g)
}

// rawVal is the harness's own Marshallable: arbitrary bytes.
type rawVal []byte

func (r rawVal) Marshal(b *bytes.Buffer) { b.Write(r) }
func (r rawVal) Bytes() []byte           { return append([]byte(nil), r...) }

// mutVal is a Marshallable the caller goes on changing after it has handed it to the library.
type mutVal struct {
	b []byte
	// odd: a caller's type whose Bytes() is not the wire form (a summary for logs, say). The interface does not say the
	// two agree; what travels behind the descriptor, and is signed, is what Marshal writes.
	odd bool
}

func (m *mutVal) Marshal(b *bytes.Buffer) { b.Write(m.b) }
func (m *mutVal) Bytes() []byte {
	if m.odd {
		return []byte(fmt.Sprintf("<%d bytes>", len(m.b)))
	}
	return append([]byte(nil), m.b...)
}

// libVal hands the library a payload the way its users do: when the bytes are a signature database the library can
// decode and re-encode to the same bytes, as a *signature.SignatureDatabase (with `asDB`), otherwise as raw bytes.
func libVal(b []byte, asDB bool) efivar.Marshallable {
	if asDB && len(b) > 0 {
		if db, err := signature.ReadSignatureDatabase(bytes.NewReader(b)); err == nil && bytes.Equal(db.Bytes(), b) {
			return &db
		}
	}
	return rawVal(b)
}

// keepSink is a caller's decoder that keeps what it is handed instead of copying it (the buffer passed to Unmarshal is
// the decoder's from then on: on the tree every read hands over a buffer of its own). What it kept must stay what it was.
type keepSink struct {
	Kept []byte // aliases the buffer's memory
	Copy []byte
}

func (s *keepSink) Unmarshal(b *bytes.Buffer) error {
	s.Kept = b.Bytes()
	s.Copy = append([]byte(nil), s.Kept...)
	return nil
}

// rawSink is the harness's own Unmarshallable. It records whether and with
// what it was called.
type rawSink struct {
	Called int
	Got    []byte
	Fail   error
	// Keep: besides the copy in Got, the decoder keeps the memory it was handed (Kept aliases it)
	Keep bool
	Kept []byte
}

func (s *rawSink) Unmarshal(b *bytes.Buffer) error {
	s.Called++
	s.Got = append([]byte(nil), b.Bytes()...)
	if s.Keep {
		s.Kept = b.Bytes()
	}
	return s.Fail
}

// predefinedVars lists every variable definition exported by package efivar.
func predefinedVars() []struct {
	Sym string
	V   efivar.Efivar
} {
	return []struct {
		Sym string
		V   efivar.Efivar
	}{
		{"SecureBoot", efivar.SecureBoot}, {"SetupMode", efivar.SetupMode}, {"PK", efivar.PK},
		{"PKDefault", efivar.PKDefault}, {"KEK", efivar.KEK}, {"KEKDefault", efivar.KEKDefault},
		{"Db", efivar.Db}, {"DbDefault", efivar.DbDefault}, {"Dbx", efivar.Dbx}, {"DbxDefault", efivar.DbxDefault},
		{"BootCurrent", efivar.BootCurrent}, {"BootNext", efivar.BootNext}, {"BootOrder", efivar.BootOrder},
		{"BootEntry", efivar.BootEntry}, {"LoaderTimeInitUSec", efivar.LoaderTimeInitUSec},
		{"LoaderTimeExecUSec", efivar.LoaderTimeExecUSec}, {"LoaderDevicePartUUID", efivar.LoaderDevicePartUUID},
		{"LoaderConfigTimeout", efivar.LoaderConfigTimeout}, {"LoaderConfigTimeoutOneShot", efivar.LoaderConfigTimeoutOneShot},
		{"LoaderEntries", efivar.LoaderEntries}, {"LoaderEntryDefault", efivar.LoaderEntryDefault},
		{"LoaderEntryOneShot", efivar.LoaderEntryOneShot}, {"LoaderEntrySelected", efivar.LoaderEntrySelected},
		{"LoaderFeatures", efivar.LoaderFeatures}, {"LoaderSystemToken", efivar.LoaderSystemToken},
	}
}

func predefinedVar(sym string) efivar.Efivar {
	for _, p := range predefinedVars() {
		if p.Sym == sym {
			return p.V
		}
	}
	harnessf("unknown predefined variable %q", sym)
	return efivar.Efivar{}
}

// VarSpec describes a variable definition inside a trace: either a predefined
// one by symbol or a generated (name, GUID, attributes) triple.
type VarSpec struct {
	Sym   string `json:"sym,omitempty"`
	Name  string `json:"name,omitempty"`
	GUID  string `json:"guid,omitempty"` // 32 hex digits, wire order
	Attrs uint32 `json:"attrs,omitempty"`
	// AttrsSet overrides the attribute mask of a predefined definition.
	AttrsSet bool `json:"attrs_set,omitempty"`
	// Rebuilt: the caller wrote the definition down itself — same name, GUID value and attributes as the predefined one,
	// but not the library's own GUID object.
	Rebuilt bool `json:"rebuilt,omitempty"`
}

func (s VarSpec) Var() efivar.Efivar {
	if s.Sym != "" {
		v := predefinedVar(s.Sym)
		if s.Name != "" {
			v.Name = s.Name
		}
		if s.AttrsSet {
			v.Attributes = attributes.Attributes(s.Attrs)
		}
		if s.Rebuilt && v.GUID != nil {
			g := *v.GUID
			v.GUID = &g
		}
		return v
	}
	b := mustHex(s.GUID)
	if len(b) != 16 {
		harnessf("bad guid %q", s.GUID)
	}
	g := guidFromWire(b)
	return efivar.Efivar{Name: s.Name, GUID: &g, Attributes: attributes.Attributes(s.Attrs)}
}

func (s VarSpec) String() string {
	if s.Sym != "" {
		if s.AttrsSet {
			return fmt.Sprintf("%s[attrs=%#x]", s.Sym, s.Attrs)
		}
		return s.Sym
	}
	return fmt.Sprintf("%s-%s[attrs=%#x]", s.Name, s.GUID, s.Attrs)
}

func mustHex(s string) []byte {
	b := make([]byte, len(s)/2)
	for i := 0; i+1 < len(s); i += 2 {
		var v byte
		for j := 0; j < 2; j++ {
			c := s[i+j]
			switch {
			case c >= '0' && c <= '9':
				v = v<<4 | (c - '0')
			case c >= 'a' && c <= 'f':
				v = v<<4 | (c - 'a' + 10)
			case c >= 'A' && c <= 'F':
				v = v<<4 | (c - 'A' + 10)
			default:
				harnessf("bad hex %q", s)
			}
		}
		b[i/2] = v
	}
	return b
}
