package sim

import (
	"bytes"
	"crypto"
	"crypto/x509"
	"encoding/binary"
	"encoding/json"
	"fmt"
	"github.com/foxboron/go-uefi/efivar"
	"github.com/foxboron/go-uefi/pkcs7"
	"os"
	"strings"
	"sync"
	"time"

	"github.com/foxboron/go-uefi/efi/signature"
	"github.com/foxboron/go-uefi/efivarfs"
	"github.com/foxboron/go-uefi/efivarfs/fswrapper"
	"github.com/spf13/afero"
)

// varsign — property C06: signed variable updates under a simulated clock and
// a simulated process time zone.

type vgCfg struct {
	Zone    string `json:"zone"`    // "" = whatever the process has (TZ environment variant)
	Instant string `json:"instant"` // RFC3339, UTC: the clock when the first update is produced
	// Clients > 1: the operations are issued by that many goroutines under the
	// seeded scheduler; the signer and the filesystem are the yield points.
	Clients int `json:"clients,omitempty"`
	// Free: the clients are not serialised at all: they run as the Go runtime lets them (race-detector build). The
	// updates they produce are judged afterwards like any other.
	Free bool `json:"free,omitempty"`
	// PreVerify: before anything is signed, the process verifies somebody else's SignedData that uses this digest
	// algorithm ("sha384", "sha512"): other work the same process does with the library
	PreVerify string `json:"pre_verify,omitempty"`
	// Env: environment variables the process happens to run with (a build system's, a CI's): NAME=value
	Env []string `json:"env,omitempty"`
	// CertSlot: the caller keeps ONE certificate object and overwrites it in place when it changes signer
	CertSlot bool `json:"cert_slot,omitempty"`
}

// vgOp produces one signed update. Several updates of one run stay alive until
// the end of the run and are judged again then.
type vgOp struct {
	Op      string  `json:"op"` // SignEFIVariable | WriteSignedUpdate
	Var     VarSpec `json:"var"`
	Val     ValSpec `json:"val"`
	Key     int     `json:"key"`
	Advance int     `json:"advance_s,omitempty"`       // simulated seconds that pass before this operation
	C       int     `json:"c,omitempty"`               // issuing client (interleaved runs)
	DelayMs int     `json:"signer_delay_ms,omitempty"` // simulated latency of the signing device
	// Reuse: once the update has been produced the caller changes the object it passed as payload (it prepares
	// the next update in the same value). The update already handed out is a value of its own.
	Reuse bool `json:"caller_reuses_payload,omitempty"`
	// SignerFails: the signing device refuses this request (the call is expected to report it; what is judged are the
	// updates produced before and after).
	SignerFails bool `json:"signer_fails,omitempty"`
	// FailCount requests in a row are refused (default 1); FailTemporary: with an error that calls itself temporary.
	FailCount     int  `json:"fail_count,omitempty"`
	FailTemporary bool `json:"fail_temporary,omitempty"`
}

type varsignEngine struct{ tz, race bool }

func init() {
	register(&varsignEngine{})
	register(&varsignEngine{tz: true})
	register(&varsignEngine{race: true})
}

func (e *varsignEngine) Name() string {
	if e.tz {
		return "varsign_tz"
	}
	if e.race {
		return "varsign_race"
	}
	return "varsign"
}
func (e *varsignEngine) Property() string { return "C06" }

func (e *varsignEngine) Plan(seed uint64, tier string) int {
	n := 12000
	if tier == "thorough" {
		n = 1600000
	}
	if e.tz {
		n /= 8
	}
	if e.race {
		n /= 12
	}
	return n
}

var vgZones = []string{
	"UTC", "+09:00", "-12:00", "+14:00", "+05:30", "+05:45", "-03:30", "+12:45", "-08:00", "+01:00", "-00:30",
	"Asia/Tokyo", "Europe/Oslo", "Europe/London", "America/New_York", "America/Los_Angeles", "America/St_Johns",
	"Australia/Lord_Howe", "Australia/Sydney", "Pacific/Kiritimati", "Pacific/Chatham", "Asia/Kathmandu", "Asia/Kolkata",
	"Africa/Casablanca", "America/Sao_Paulo", "Pacific/Apia", "Etc/GMT+12", "Asia/Tehran", "Europe/Dublin", "Antarctica/Troll",
	"America/Havana", "Asia/Gaza", "Pacific/Honolulu", "Atlantic/Azores", "America/Caracas", "Asia/Pyongyang", "Europe/Moscow",
	"Pacific/Norfolk", "America/Asuncion", "Africa/Cairo", "Pacific/Tongatapu", "Asia/Dhaka",
}

// genInstant draws a simulated instant in [2000-01-01, 2049-12-31] with
// deliberate mass on field rollovers.
func genInstant(r *R) (time.Time, string) {
	t, k := genInstant0(r)
	// the bubble's clock starts at the epoch and only moves forward
	if t.Before(bubbleEpoch) {
		t = bubbleEpoch
	}
	if t.After(simMaxInstant) {
		t = simMaxInstant
	}
	return t, k
}

func genInstant0(r *R) (time.Time, string) {
	year := 2000 + r.Intn(50)
	switch r.Intn(10) {
	case 0: // year rollover
		t := time.Date(year, 12, 31, 23, 59, 59, 0, time.UTC)
		if r.Bool() && year < 2049 {
			t = t.Add(time.Second)
		}
		return t, "year_rollover"
	case 1: // leap day
		ly := 2000 + 4*r.Intn(12)
		return time.Date(ly, 2, 29, r.Intn(24), r.Intn(60), r.Intn(60), 0, time.UTC), "leap_day"
	case 2: // end of February
		t := time.Date(year, 3, 1, 0, 0, 0, 0, time.UTC).Add(-time.Duration(r.Intn(3)) * time.Second)
		return t, "feb_end"
	case 3: // month rollover
		t := time.Date(year, time.Month(1+r.Intn(12)), 1, 0, 0, 0, 0, time.UTC).Add(-time.Duration(r.Intn(2)) * time.Second)
		return t, "month_rollover"
	case 4: // day rollover
		t := time.Date(year, time.Month(1+r.Intn(12)), 1+r.Intn(28), 23, 59, 59, 0, time.UTC).Add(time.Duration(r.Intn(2)) * time.Second)
		return t, "day_rollover"
	case 5: // hour / minute rollover
		t := time.Date(year, time.Month(1+r.Intn(12)), 1+r.Intn(28), r.Intn(24), 59, 59, 0, time.UTC).Add(time.Duration(r.Intn(2)) * time.Second)
		return t, "hour_rollover"
	case 6: // around typical DST transition dates (last Sunday of March/October, 2nd Sunday of March, 1st Sunday of November)
		m := Pick(r, []time.Month{3, 3, 10, 11, 4, 9})
		t := time.Date(year, m, 1+r.Intn(31), r.Intn(4), r.Intn(60), r.Intn(60), 0, time.UTC)
		if t.After(simMaxInstant) {
			t = simMaxInstant
		}
		return t, "dst_window"
	case 7:
		return bubbleEpoch.Add(time.Duration(r.Intn(3)) * time.Second), "epoch"
	case 8:
		return simMaxInstant.Add(-time.Duration(r.Intn(3)) * time.Second), "max_instant"
	}
	t := time.Date(year, time.Month(1+r.Intn(12)), 1+r.Intn(28), r.Intn(24), r.Intn(60), r.Intn(60), 0, time.UTC)
	return t, "uniform"
}

func genVgOp(r *R) vgOp {
	var op vgOp
	// variable: predefined authenticated ones, or generated
	switch r.Intn(3) {
	case 0:
		op.Var = VarSpec{Sym: Pick(r, []string{"PK", "KEK", "Db", "Dbx"})}
		if r.Chance(1, 3) {
			op.Var.Attrs, op.Var.AttrsSet = uint32(predefinedVar(op.Var.Sym).Attributes)|0x40, true
		}
	case 1:
		op.Var = VarSpec{Sym: Pick(r, predefinedVars()).Sym}
	default:
		op.Var = genVarSpec(r)
		if op.Var.Sym == "" {
			op.Var.Attrs = uint32(r.Intn(0x100))
			if r.Chance(1, 5) {
				// a vendor's variable that happens to carry a well-known name
				op.Var.Name = Pick(r, []string{"db", "dbx", "dbt", "dbr", "PK", "KEK", "SetupMode", "Boot0001"})
			}
		}
	}
	switch r.Intn(6) {
	case 3:
		op.Val = ValSpec{Kind: "randdb", Tag: r.Intn(1 << 24)}
		if r.Chance(1, 4) {
			op.Val = ValSpec{Kind: "stalesizedb", N: r.Range(1, 4), Tag: r.Intn(250)}
		}
	case 0:
		op.Val = ValSpec{Kind: "hashdb", N: 0}
	case 1:
		op.Val = ValSpec{Kind: "hashdb", N: r.Range(1, 6), Tag: r.Intn(250)}
	case 2:
		op.Val = ValSpec{Kind: "certdb", Tag: r.Intn(poolSize)}
	default:
		op.Val = ValSpec{Kind: "raw", N: Pick(r, []int{0, 1, 2, 15, 16, 17, 39, 40, 41, 255, 256, 1000}), Tag: r.Intn(1 << 16)}
	}
	switch r.Intn(6) {
	case 0:
		op.Key = r.Intn(poolSize)
	case 1:
		op.Key = Pick(r, []int{8, 9}) // CA-issued: issuer differs from subject
	case 2:
		op.Key = 10 + r.Intn(8) // certificate lengths 796..803: every residue modulo 8
		if r.Chance(1, 12) {
			op.Key = 18 // SignedData larger than 65535 bytes
		}
	case 3:
		op.Key = 19 + r.Intn(2) // certificates whose validity begins and ends inside the simulated time span
	default:
		op.Key = r.Intn(2) // mostly the cheap self-signed 2048-bit keys
	}
	op.Reuse = r.Chance(1, 3)
	op.Op = "SignEFIVariable"
	if r.Bool() {
		op.Op = "WriteSignedUpdate"
	}
	return op
}

func (e *varsignEngine) Gen(seed uint64, tier string, run int) *Trace {
	r := NewR(seed, e.Name(), run)
	var c vgCfg
	if !e.tz {
		c.Zone = Pick(r, vgZones)
		if r.Chance(1, 6) {
			c.Zone = "UTC"
		}
	}
	if er := r.Fork("env"); er.Chance(1, 6) {
		c.Env = []string{Pick(er, []string{"SOURCE_DATE_EPOCH=1700000000", "SOURCE_DATE_EPOCH=0", "TZ=Pacific/Kiritimati", "LANG=tr_TR.UTF-8", "FAKETIME=2001-01-01 00:00:00", "GODEBUG=x509negativeserial=1"})}
		if e.tz {
			c.Env = []string{"SOURCE_DATE_EPOCH=1700000000"}
		}
	}
	c.CertSlot = !e.race && r.Fork("slot").Chance(1, 4)
	if pr := r.Fork("pre"); pr.Chance(1, 8) {
		c.PreVerify = Pick(pr, []string{"sha384", "sha512"})
	}
	t, _ := genInstant(r)
	if zr := r.Fork("dst"); zr.Chance(1, 5) && len(c.Zone) > 0 && c.Zone[0] != '+' && c.Zone[0] != '-' && c.Zone != "UTC" {
		// a clock change of the zone (the hour that does not exist, the hour that happens twice) and the seconds around it
		if loc, err := loadZone(c.Zone); err == nil {
			if trs := zoneTransitions(loc, 2000+zr.Intn(50)); len(trs) > 0 {
				tr := Pick(zr, trs)
				d := Pick(zr, []int{-3601, -3600, -1801, -1800, -1, 0, 1, 59, 1799, 1800, 1801, 3599, 3600, 3601, zr.Intn(7400) - 3700, zr.Intn(7400) - 3700})
				if cand := tr.Add(time.Duration(d) * time.Second); cand.After(bubbleEpoch) && cand.Before(simMaxInstant) {
					t = cand
				}
			}
		}
	}
	c.Instant = t.Format(time.RFC3339)
	n := 1
	if r.Chance(1, 3) {
		n = r.Range(2, 4)
	}
	mode := r.Intn(8)
	if e.race {
		mode = 0
		c.Free = true
	}
	if mode == 0 {
		c.Clients = r.Range(2, 3)
		if e.race {
			c.Clients = Pick(r, []int{2, 3, 4, 8})
		}
		n = r.Range(c.Clients, c.Clients+2)
	}
	var ops []vgOp
	for i := 0; i < n; i++ {
		op := genVgOp(r.Fork(fmt.Sprint("op", i)))
		if i > 0 && r.Bool() && c.Clients <= 1 {
			op.Advance = Pick(r, []int{1, 59, 60, 3599, 3600, 86399, 86400, r.Intn(1000000)})
		}
		if r.Chance(1, 4) {
			op.DelayMs = Pick(r, []int{1, 400, 999, 1000, 1100, 2500, 61000, 3600000})
		}
		if c.Clients > 1 {
			op.C = i % c.Clients
		}
		if (n > 1 && i < n-1 && r.Chance(1, 6)) || r.Chance(1, 25) {
			op.SignerFails = true
			op.FailCount = Pick(r, []int{1, 1, 2, 3, 4, 8})
			op.FailTemporary = r.Bool()
		}
		if e.race && r.Chance(1, 2) {
			// large payloads: the passes over the payload (marshalling, hashing) are long enough to overlap
			op.Val = ValSpec{Kind: "raw", N: Pick(r, []int{1 << 14, 1 << 16, 1 << 17, 1 << 19}), Tag: r.Intn(1 << 16)}
		}
		ops = append(ops, op)
	}
	// a signer certificate with a short validity: put the clock close to (but inside) an edge of its window
	if k := ops[0].Key; (k == 19 || k == 20) && r.Chance(2, 3) {
		cert := Pool()[k].Cert
		d := time.Duration(Pick(r, []int{1, 59, 600, 1799, 1800, 3599, 3600, 2*3600 + 1, 5*3600 + 1800, 9 * 3600, 12 * 3600, 14*3600 - 1, r.Intn(14 * 3600)})) * time.Second
		edge := cert.NotBefore.Add(d)
		if r.Bool() {
			edge = cert.NotAfter.Add(-d)
		}
		c.Instant = edge.UTC().Format(time.RFC3339)
		for i := range ops {
			ops[i].Advance, ops[i].DelayMs = 0, 0
		}
	}
	var sw []Switch
	if c.Clients > 1 && !c.Free {
		gap := Pick(r, []int{1, 1, 2})
		for y := r.Intn(gap + 1); y < 12*n; y += 1 + r.Intn(2*gap) {
			sw = append(sw, Switch{Yield: y, Next: r.Intn(c.Clients)})
		}
	}
	return &Trace{Property: "C06", Engine: e.Name(), Seed: seed, Run: run, Tier: tier,
		Cfg: mustJSON(c), Ops: rawList(ops), Faults: []json.RawMessage{}, Schedule: rawList(sw)}
}

var pkcs7GUIDWire = []byte{0x9d, 0xd2, 0xaf, 0x4a, 0xdf, 0x68, 0xee, 0x49, 0x8a, 0xa9, 0x34, 0x7d, 0x37, 0x56, 0x65, 0xa7}

func (e *varsignEngine) Exec(tr *Trace, x *X) {
	var c vgCfg
	if err := json.Unmarshal(tr.Cfg, &c); err != nil {
		harnessf("varsign cfg: %v", err)
	}
	ops, err := unrawList[vgOp](tr.Ops)
	if err != nil {
		harnessf("varsign ops: %v", err)
	}
	if len(ops) == 0 {
		x.Logf("no operation")
		return
	}
	at, err := time.Parse(time.RFC3339, c.Instant)
	if err != nil {
		harnessf("varsign instant: %v", err)
	}
	at = at.UTC()
	sw, err := unrawList[Switch](tr.Schedule)
	if err != nil {
		harnessf("varsign schedule: %v", err)
	}
	for _, kv := range c.Env {
		if k, v, ok := strings.Cut(kv, "="); ok && k != "TZ" {
			old, had := os.LookupEnv(k)
			os.Setenv(k, v)
			defer func() {
				if had {
					os.Setenv(k, old)
				} else {
					os.Unsetenv(k)
				}
			}()
			x.Probe("environment_variable_set")
		}
	}
	var slot *x509.Certificate
	if c.CertSlot && c.Clients <= 1 { // (one caller at a time: overwriting the object while a call is using it would be the caller's bug)
		slot = &x509.Certificate{}
	}
	if pv := inBubble(x.T, at, c.Zone, func() {
		type alive struct {
			i    int
			op   vgOp
			m    interface{ Bytes() []byte }
			b    []byte
			kind string
		}
		var live []alive
		plane := NewPlane(nil)
		if c.PreVerify != "" {
			vgPreVerify(c.PreVerify, x)
		}
		one := func(i int, op vgOp) {
			if op.Advance > 0 {
				time.Sleep(time.Duration(op.Advance) * time.Second)
			}
			now := time.Now().UTC()
			if now.Add(time.Duration(op.DelayMs) * time.Millisecond).After(simMaxInstant) {
				x.Logf("op %d skipped: simulated clock past %s", i, simMaxInstant.Format(time.RFC3339))
				return
			}
			x.Sim(now.Unix())
			p := vgProduce(op, plane, slot)
			m, b := vgJudge(c, op, i, p, x)
			if b != nil {
				live = append(live, alive{i, op, m, b, op.Op})
			}
		}
		switch {
		case c.Clients > 1 && c.Free:
			// free-running callers: produce concurrently (nothing of the harness is shared), judge afterwards
			prods := make([]*vgProduct, len(ops))
			var wg sync.WaitGroup
			start := make(chan struct{})
			for cl := 0; cl < c.Clients; cl++ {
				cl := cl
				wg.Add(1)
				go func() {
					defer wg.Done()
					<-start
					for i, op := range ops {
						if op.C%c.Clients != cl {
							continue
						}
						op.Advance, op.DelayMs = 0, 0
						prods[i] = vgProduce(op, NewPlane(nil), nil)
					}
				}()
			}
			close(start)
			wg.Wait()
			x.Probe("free_running_signers")
			for i, op := range ops {
				if x.Failed() || prods[i] == nil {
					continue
				}
				x.Sim(prods[i].at.Unix())
				m, b := vgJudge(c, op, i, prods[i], x)
				if b != nil {
					live = append(live, alive{i, op, m, b, op.Op})
				}
			}
		case c.Clients > 1:
			sched := NewSched(x, c.Clients, sw)
			plane.yield = sched.Yield
			bodies := make([]func(), c.Clients)
			for cl := 0; cl < c.Clients; cl++ {
				cl := cl
				bodies[cl] = func() {
					for i, op := range ops {
						if op.C%c.Clients != cl || x.Failed() {
							continue
						}
						one(i, op)
					}
				}
			}
			sched.Run(bodies)
			plane.yield = nil
			x.SchedKey = sched.key()
			x.Probes["yields"] += sched.nyield
			x.Probes["context_switches"] += len(sched.Switches)
			if len(sched.Switches) > 0 {
				x.Probe("interleaved_signers")
			}
		default:
			for i, op := range ops {
				if x.Failed() {
					return
				}
				one(i, op)
			}
		}
		// every update produced in this run is still the same byte string
		for _, l := range live {
			if x.Failed() {
				return
			}
			if l.m == nil {
				continue
			}
			again := l.m.Bytes()
			if !bytes.Equal(again, l.b) {
				x.Fail("varsign.update_stays_valid", l.i, l.kind, "update %d of this run read back at the end of the run differs from what it was when produced (%s vs %s); %d update(s) were produced in this run", l.i, shortHex(again), shortHex(l.b), len(live))
				return
			}
			if len(live) > 1 {
				x.Probe("several_updates_alive")
			}
		}
	}); pv != nil {
		panic(pv)
	}
}

// vgProduct is what one call of the library left behind; it is judged by vgJudge. Producing touches nothing of the
// harness that another caller could touch at the same time.
type vgProduct struct {
	payload     []byte
	out         []byte
	keep        interface{ Bytes() []byte }
	err         error
	pv          any
	marshalDiff string
	at, end     time.Time
	zname       string
	zoff        int
	reused      bool
}

func vgProduce(op vgOp, plane *Plane, slot *x509.Certificate) *vgProduct {
	p := &vgProduct{}
	v := op.Var.Var()
	p.payload = op.Val.Bytes()
	payload := p.payload
	pk := Pool()[op.Key%poolAll]
	cert := pk.Cert
	if slot != nil {
		*slot = *pk.Cert // signer rotation in place: same object, new contents
		cert = slot
	}
	signer := &SimSigner{inner: pk.Key, p: plane, Delay: time.Duration(op.DelayMs) * time.Millisecond, Temporary: op.FailTemporary}
	if op.SignerFails {
		signer.FailNext = max(1, op.FailCount)
	}
	p.at = time.Now().UTC()
	p.zname, p.zoff = time.Now().Zone()
	var stale efivar.Marshallable
	if op.Val.Kind == "stalesizedb" {
		w := op.Val
		w.Kind = "hashdb"
		if db, err := signature.ReadSignatureDatabase(bytes.NewReader(w.Bytes())); err == nil && len(db) > 0 {
			db[0].ListSize += 4
			stale = &db
		}
	}
	func() {
		defer func() { p.pv = recover() }()
		switch op.Op {
		case "SignEFIVariable":
			if stale != nil {
				_, mm, e2 := signature.SignEFIVariable(v, stale, signer, cert)
				p.err = e2
				if mm != nil && e2 == nil {
					p.keep, p.out = mm, mm.Bytes()
				}
				return
			}
			mine := &mutVal{b: append([]byte(nil), payload...), odd: op.Key%3 == 1 && op.Reuse}
			_, mm, e2 := signature.SignEFIVariable(v, mine, signer, cert)
			p.err = e2
			if mm != nil && e2 == nil && op.Reuse {
				// the caller goes on working with its own object: the next update is prepared in it
				for k := range mine.b {
					mine.b[k] ^= 0x5a
				}
				mine.b = append(mine.b, "next entry"...)
				p.reused = true
			}
			if mm != nil && e2 == nil {
				p.keep = mm
				p.out = mm.Bytes()
				// the update is a value: encoding it (both ways the interface offers) does not use it up
				var mb bytes.Buffer
				mm.Marshal(&mb)
				if !bytes.Equal(mb.Bytes(), p.out) {
					p.marshalDiff = fmt.Sprintf("Marshal() wrote %s, Bytes() returned %s", shortHex(mb.Bytes()), shortHex(p.out))
				} else if again := mm.Bytes(); !bytes.Equal(again, p.out) {
					p.marshalDiff = fmt.Sprintf("Bytes() after a Marshal() returned %s, before it %s", shortHex(again), shortHex(p.out))
				}
			}
		case "WriteSignedUpdate":
			sfs := NewSimFs(afero.NewMemMapFs(), plane, nil)
			wr := fswrapper.NewMemoryWrapper()
			wr.SetFS(sfs)
			api := efivarfs.Open(&efivarfs.EFIFS{FSWrapper: wr})
			var m efivar.Marshallable = libVal(payload, op.Reuse)
			if stale != nil {
				m = stale
			}
			p.err = api.WriteSignedUpdate(v, m, signer, cert)
			for _, ev := range sfs.Events {
				if ev.Call == cWrite && len(ev.Buf) >= 4 {
					p.out = ev.Buf[4:]
				}
			}
		default:
			harnessf("varsign: unknown api %q", op.Op)
		}
	}()
	p.end = time.Now().UTC()
	return p
}

// vgJudge judges one produced update. It returns the Marshallable (when the API hands one out) and the bytes.
func vgJudge(c vgCfg, op vgOp, i int, p *vgProduct, x *X) (interface{ Bytes() []byte }, []byte) {
	v := op.Var.Var()
	payload := p.payload
	pk := Pool()[op.Key%poolAll]
	kind := op.Op
	at, end, zname, zoff := p.at, p.end, p.zname, p.zoff
	out, keep, err, pv, marshalDiff := p.out, p.keep, p.err, p.pv, p.marshalDiff
	x.Logf("op %d zone=%q (process sees %s%+d) instant=%s var=%s payload=%s key=k%d api=%s signer_fails=%v", i, c.Zone, zname, zoff, at.Format(time.RFC3339), op.Var.String(), shortHex(payload), op.Key, op.Op, op.SignerFails)
	if zoff != 0 {
		x.Probe("non_utc_zone")
	}
	if at.In(time.Local).Day() != at.Day() {
		x.Probe("local_date_differs_from_utc_date")
	}
	if at.In(time.Local).IsDST() {
		x.Probe("dst_in_effect")
	}
	if string(pk.Cert.RawIssuer) != string(pk.Cert.RawSubject) {
		x.Probe("ca_issued_signer")
	}
	if p.reused {
		x.Probe("caller_reuses_payload_object")
	}
	fail := func(oracle, format string, a ...any) { x.Fail(oracle, i, kind, format, a...) }
	if pv != nil {
		if he, ok := pv.(*HarnessError); ok {
			panic(he)
		}
		fail("varsign.no_panic", "panicked: %v", pv)
		return nil, nil
	}
	if op.SignerFails {
		// what a failing signer has to lead to is another property's business; this run goes on with the next request.
		// But an update that the library hands out as good is judged like any other.
		x.Logf("op %d: the signing device refused %d request(s) (temporary=%v); the call returned err=%v", i, max(1, op.FailCount), op.FailTemporary, err)
		x.Probe("signer_refused_then_next_request")
		if err != nil || out == nil {
			return nil, nil
		}
		x.Probe("update_produced_although_signer_refused")
	}
	if err != nil {
		fail("varsign.succeeds", "signing with a healthy key failed: %v", err)
		return nil, nil
	}
	x.Steps++
	x.Nontriv = true
	if marshalDiff != "" {
		fail("varsign.update_stays_valid", "%s", marshalDiff)
		return nil, nil
	}
	b := out
	x.Logf("update: %d bytes, head=%x", len(b), b[:min(len(b), 40)])
	if len(b) < 40 {
		fail("varsign.layout", "update has %d bytes, a descriptor needs 40", len(b))
		return nil, nil
	}
	// --- 16-byte EFI_TIME: the simulated clock during the call, in UTC ---
	if end.Sub(at) >= time.Second {
		x.Probe("clock_ticked_during_signing")
	}
	okTime := false
	for t := at.Truncate(time.Second); !t.After(end); t = t.Add(time.Second) {
		want := make([]byte, 16)
		binary.LittleEndian.PutUint16(want[0:], uint16(t.Year()))
		want[2], want[3], want[4], want[5], want[6] = byte(t.Month()), byte(t.Day()), byte(t.Hour()), byte(t.Minute()), byte(t.Second())
		if bytes.Equal(b[:16], want) {
			okTime = true
			break
		}
		if end.Sub(at) > 2*time.Hour && t.Sub(at) > 2*time.Second && end.Sub(t) > 3*time.Second {
			t = end.Add(-3 * time.Second).Truncate(time.Second) // long latency: only the edges of the window are plausible
		}
	}
	if !okTime {
		got := fmt.Sprintf("%04d-%02d-%02d %02d:%02d:%02d pad1=%d ns=%d tz=%d dl=%d pad2=%d", binary.LittleEndian.Uint16(b), b[2], b[3], b[4], b[5], b[6], b[7],
			binary.LittleEndian.Uint32(b[8:]), int16(binary.LittleEndian.Uint16(b[12:])), b[14], b[15])
		fail("varsign.timestamp_is_utc_now", "descriptor time %s, simulated clock was %s .. %s UTC during the call (process zone %s%+ds)", got, at.Format("2006-01-02 15:04:05"), end.Format("15:04:05"), zname, zoff)
		return nil, nil
	}
	// --- WIN_CERTIFICATE_UEFI_GUID header ---
	dw := int(binary.LittleEndian.Uint32(b[16:]))
	if rev := binary.LittleEndian.Uint16(b[20:]); rev != 0x0200 {
		fail("varsign.layout", "wRevision %#x", rev)
		return nil, nil
	}
	if ct := binary.LittleEndian.Uint16(b[22:]); ct != 0x0EF1 {
		fail("varsign.layout", "wCertificateType %#x", ct)
		return nil, nil
	}
	if !bytes.Equal(b[24:40], pkcs7GUIDWire) {
		fail("varsign.layout", "CertType GUID %x is not EFI_CERT_TYPE_PKCS7_GUID", b[24:40])
		return nil, nil
	}
	if dw < 24 || 16+dw > len(b) {
		fail("varsign.layout", "dwLength %d out of range (update has %d bytes)", dw, len(b))
		return nil, nil
	}
	sig := b[40 : 16+dw]
	rest := b[16+dw:]
	if !bytes.Equal(rest, payload) {
		// distinguish a wrong dwLength from a changed payload
		if bytes.HasSuffix(b, payload) && len(b)-len(payload)-16 != dw {
			fail("varsign.dwlength", "dwLength %d, but descriptor certificate occupies %d bytes (24 + signature)", dw, len(b)-len(payload)-16)
		} else {
			fail("varsign.payload_unchanged", "bytes after the descriptor differ from the payload: %s vs %s", shortHex(rest), shortHex(payload))
		}
		return nil, nil
	}
	cms, err := refCMSParse(sig)
	if err != nil {
		fail("varsign.signeddata", "certificate data is not a DER SignedData: %v", err)
		return nil, nil
	}
	if !cms.Bare {
		fail("varsign.bare_signeddata", "SignedData is wrapped in a ContentInfo")
		return nil, nil
	}
	if cms.HasContent {
		fail("varsign.detached", "SignedData carries encapsulated content; the signature must be detached")
		return nil, nil
	}
	if len(cms.DigestAlgs) != 1 || !cms.DigestAlgs[0].Equal(oidSHA256) {
		fail("varsign.sha256", "digestAlgorithms %v", cms.DigestAlgs)
		return nil, nil
	}
	// --- the signed buffer ---
	var buf []byte
	for _, ch := range []byte(v.Name) {
		buf = append(buf, ch, 0)
	}
	buf = append(buf, refGUIDWire(*v.GUID)...)
	buf = append(buf, le32(uint32(v.Attributes))...)
	buf = append(buf, b[:16]...)
	buf = append(buf, payload...)
	if err := refCMSVerify(cms, pk.Cert, buf); err != nil {
		_ = c
		fail("varsign.signature_binds_variable", "independent verification over name||GUID||attributes||timestamp||payload failed: %v", err)
		return nil, nil
	}
	// a verifier that is strict about time: when the clock was inside the validity window of the signer certificate
	// during the whole call, whatever signing time the SignedData claims has to be inside it as well
	if at.After(pk.Cert.NotBefore) && end.Before(pk.Cert.NotAfter) {
		if pk.Cert.NotBefore.After(bubbleEpoch) {
			x.Probe("short_validity_signer")
			if at.Sub(pk.Cert.NotBefore) < 14*time.Hour || pk.Cert.NotAfter.Sub(end) < 14*time.Hour {
				x.Probe("clock_near_validity_edge")
			}
		}
		if err := refCMSStrictTime(cms, pk.Cert); err != nil {
			fail("varsign.strict_verifier_accepts", "the simulated clock was %s .. %s UTC, inside the validity of the signer certificate, but %v (process zone %s%+ds)", at.Format(time.RFC3339), end.Format("15:04:05"), err, zname, zoff)
			return nil, nil
		}
	}
	x.State(h64(c.Zone, at.Unix()/86400))
	return keep, append([]byte(nil), out...)
}

// zoneTransitions lists the instants of a year at which the zone's UTC offset changes, to the second.
func zoneTransitions(loc *time.Location, year int) []time.Time {
	var out []time.Time
	off := func(t time.Time) int { _, o := t.In(loc).Zone(); return o }
	day := time.Date(year, 1, 1, 0, 0, 0, 0, time.UTC)
	for d := 0; d < 366; d++ {
		a, b := day.AddDate(0, 0, d), day.AddDate(0, 0, d+1)
		if off(a) == off(b) {
			continue
		}
		lo, hi := a.Unix(), b.Unix() // off(lo) != off(hi); find the first second with the new offset
		for hi-lo > 1 {
			mid := (lo + hi) / 2
			if off(time.Unix(mid, 0)) == off(a) {
				lo = mid
			} else {
				hi = mid
			}
		}
		out = append(out, time.Unix(hi, 0).UTC())
	}
	return out
}

// vgPreVerify: the process verifies a SignedData another signer made with SHA-384 or SHA-512 before it signs anything
// itself. Whatever the library answers is not judged here.
func vgPreVerify(alg string, x *X) {
	h := crypto.SHA384
	if alg == "sha512" {
		h = crypto.SHA512
	}
	pk := Pool()[1]
	content := []byte("somebody else's content")
	like := &RefCMS{EContentType: oidData}
	blob := refCMSForeignAlg(like, content, pk, time.Now().UTC(), nil, h)
	func() {
		defer func() { recover() }()
		if p7, err := pkcs7.ParsePKCS7(append([]byte(nil), blob...)); err == nil {
			ok, verr := p7.Verify(pk.Cert)
			x.Logf("pre-verify of a %s SignedData: %v %v", alg, ok, verr)
		} else {
			x.Logf("pre-verify of a %s SignedData: parse: %v", alg, err)
		}
	}()
	x.Probe("verified_foreign_digest_algorithm_first")
}
