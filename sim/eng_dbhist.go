package sim

import (
	"bytes"
	"crypto/sha256"
	"encoding/json"
	"fmt"
	"io"
	"reflect"

	"github.com/foxboron/go-uefi/efi/signature"
	"github.com/foxboron/go-uefi/efi/util"
)

// dbhist — property C09: edit histories of a signature database against an
// ordered-entry reference model; encode -> decode is the restart.

// ---- fixed universe (traces hold indices into it) ----

var dbTypes = []struct {
	Name string
	G    util.EFIGUID
	Kind string // supported | extmgmt | undecodable | unknown
}{
	{"SHA256", signature.CERT_SHA256_GUID, "supported"},
	{"X509", signature.CERT_X509_GUID, "supported"},
	{"EXTERNAL_MANAGEMENT", signature.CERT_EXTERNAL_MANAGEMENT_GUID, "extmgmt"},
	{"SHA1", signature.CERT_SHA1_GUID, "undecodable"},
	{"UNKNOWN", util.EFIGUID{Data1: 0xdeadbeef, Data2: 0x1234, Data3: 0x5678, Data4: [8]byte{1, 2, 3, 4, 5, 6, 7, 8}}, "unknown"},
	{"UNKNOWN2", util.EFIGUID{Data1: 0x0badcafe, Data2: 0x4321, Data3: 0x8765, Data4: [8]byte{8, 7, 6, 5, 4, 3, 2, 1}}, "unknown"},
}

var dbOwners = []util.EFIGUID{
	{Data1: 0xc1095e1b, Data2: 0x8a3b, Data3: 0x4cf5, Data4: [8]byte{0x9d, 0x4a, 0xaf, 0xc7, 0xd7, 0x5d, 0xca, 0x68}},
	{Data1: 0x77fa9abd, Data2: 0x0359, Data3: 0x4d32, Data4: [8]byte{0xbd, 0x60, 0x28, 0xf4, 0xe7, 0x8f, 0x78, 0x4b}},
	{Data1: 0x00000000, Data2: 0x0000, Data3: 0x0000, Data4: [8]byte{0, 0, 0, 0, 0, 0, 0, 1}},
	// owners that differ from the first one in exactly one field (a comparison that skips a field takes them for it)
	{Data1: 0xc1095e1b, Data2: 0x8a3c, Data3: 0x4cf5, Data4: [8]byte{0x9d, 0x4a, 0xaf, 0xc7, 0xd7, 0x5d, 0xca, 0x68}},
	{Data1: 0xc1095e1b, Data2: 0x8a3b, Data3: 0x4cf4, Data4: [8]byte{0x9d, 0x4a, 0xaf, 0xc7, 0xd7, 0x5d, 0xca, 0x68}},
	{Data1: 0xc1095e1a, Data2: 0x8a3b, Data3: 0x4cf5, Data4: [8]byte{0x9d, 0x4a, 0xaf, 0xc7, 0xd7, 0x5d, 0xca, 0x68}},
	{Data1: 0xc1095e1b, Data2: 0x8a3b, Data3: 0x4cf5, Data4: [8]byte{0x9d, 0x4a, 0xaf, 0xc7, 0xd7, 0x5d, 0xca, 0x69}},
	{Data1: 0xc1095e1b, Data2: 0x8a3b, Data3: 0x4cf5, Data4: [8]byte{0x9c, 0x4a, 0xaf, 0xc7, 0xd7, 0x5d, 0xca, 0x68}},
}

// dbOwnerSets: which three owners a run uses (index into dbOwners). Set 0 is three unrelated GUIDs; the others pair the first
// owner with GUIDs that differ from it in one field only.
var dbOwnerSets = [][3]int{{0, 1, 2}, {0, 3, 4}, {0, 5, 6}, {0, 7, 1}, {3, 0, 4}}

// dbReadBuffer is the caller's read buffer: certificates in PEM form arrive in it, one after the other, at the same
// address (the library decodes PEM into memory of its own, so it never keeps this buffer; raw data it keeps, which is
// why only PEM input goes through here).
var dbReadBuffer = make([]byte, 16384)

func dbCallerData(t, d int) []byte {
	data := dbData(d)
	if dbIsPEM(t, d) && len(data) <= len(dbReadBuffer) {
		buf := dbReadBuffer[:len(data)]
		copy(buf, data)
		return buf
	}
	return append([]byte(nil), data...)
}

// dbOwnerSet is the set of the run that is executing (one run at a time per worker process).
var dbOwnerSet = 0

func dbOwner(i int) util.EFIGUID { return dbOwners[dbOwnerSets[dbOwnerSet%len(dbOwnerSets)][i%3]] }

func dbData(i int) []byte {
	mk := func(n int, tag byte) []byte {
		b := make([]byte, n)
		for j := range b {
			b[j] = tag ^ byte(j*13+1)
		}
		b[0] = tag
		return b
	}
	p := Pool()
	if i >= 100 {
		// the long-history universe: as many distinct 32-byte values as wanted
		h := sha256.Sum256([]byte(fmt.Sprint("dbhist value ", i)))
		return h[:]
	}
	switch i {
	case 0, 1, 2, 3:
		return mk(32, byte(0x10+i))
	case 4:
		return mk(31, 0x44)
	case 5:
		return mk(33, 0x55)
	case 6:
		return p[0].CertDER
	case 7:
		return p[1].CertDER
	case 8:
		return p[7].CertDER
	case 9:
		return p[0].CertPEM
	case 10:
		return p[1].CertPEM
	case 11:
		return p[7].CertPEM
	case 12:
		return []byte{0x01}
	case 13:
		return mk(20, 0x66)
	case 14:
		// PEM as tools emit it: explanatory text in front of the armour (RFC 7468 section 2: parsers ignore it)
		return append([]byte("Bag Attributes\n    friendlyName: sim A\nsubject=O = verif sim, CN = sim A\n"), p[0].CertPEM...)
	case 15:
		// a leading blank line and indentation-free whitespace before the block
		return append([]byte("\n  \n"), p[1].CertPEM...)
	case 16:
		// text behind the block
		return append(append([]byte(nil), p[7].CertPEM...), "\ntrailing remark\n"...)
	}
	harnessf("dbhist: data index %d", i)
	return nil
}

const dbNData = 17

// compatible data indices per type index
var dbCompat = [][]int{
	{0, 1, 2, 3, 0, 1, 2, 4, 5}, // SHA256, with the two wrong-size values
	{6, 7, 8, 9, 10, 11, 6, 7, 8, 9, 10, 11, 14, 15, 16},
	{12},
	{13},
	{0, 6, 12},
	{0, 6, 12},
}

// dbNorm is the form in which the statement says data is stored.
func dbNorm(t, d int) []byte {
	if t == 1 && d >= 9 && d <= 11 {
		return dbData(d - 3)
	}
	if t == 1 && d >= 14 && d <= 16 {
		return dbData(d - 8)
	}
	return dbData(d)
}

func dbIsPEM(t, d int) bool { return t == 1 && (d >= 9 && d <= 11 || d >= 14 && d <= 16) }

type dbItem struct {
	O int `json:"o"`
	D int `json:"d"`
}

type dbListSpec struct {
	T     int      `json:"t"`
	Items []dbItem `json:"items"`
	// Rm: after the appends, remove these (owner, data) pairs through the list-level API
	Rm []dbItem `json:"rm,omitempty"`
	// Restart: encode the list and decode it again before it is used
	Restart bool `json:"restart,omitempty"`
	// Hdr > 0: the list carries a SignatureHeader of that many bytes (types whose
	// decoder does not insist on an empty header)
	Hdr int `json:"hdr,omitempty"`
}

type dbOp struct {
	Op    string       `json:"op"`
	T     int          `json:"t"`
	O     int          `json:"o"`
	D     int          `json:"d"`
	List  *dbListSpec  `json:"list,omitempty"`
	Lists []dbListSpec `json:"lists,omitempty"`
}

type dbCfg struct {
	Owners int          `json:"owner_set,omitempty"` // which owner GUIDs o0..o2 stand for (dbOwnerSets)
	Start  string       `json:"start"`               // "" (empty) | fixture name | "gen"
	Gen    []dbListSpec `json:"gen,omitempty"`
}

type dbhistEngine struct{}

func init() { register(&dbhistEngine{}) }

func (e *dbhistEngine) Name() string     { return "dbhist" }
func (e *dbhistEngine) Property() string { return "C09" }

func (e *dbhistEngine) Plan(seed uint64, tier string) int {
	if tier == "thorough" {
		return 10000000
	}
	return 160000
}

var dbFixtures = []string{"db", "dbdefault", "kek", "kekdefault", "pk", "pkdefault", "KEK.der.esl", "PK.der.esl", "db.der.esl", "sha256.bin.siglist"}

func (e *dbhistEngine) Gen(seed uint64, tier string, run int) *Trace {
	r := NewR(seed, "dbhist", run)
	// swarm: enabled types, owners, op kinds
	var types []int
	for t := range dbTypes {
		w := []int{9, 8, 2, 2, 2, 2}[t]
		if r.Chance(w, 10) {
			types = append(types, t)
		}
	}
	if len(types) == 0 {
		types = []int{0}
	}
	nown := r.Range(1, 3)
	opw := []int{10, 4, 8, 3, 5, 3, 3, 3, 1, 4, 1} // Append AppendSignature Remove RemoveSignature BytesExists SigDataExists Exists AppendList AppendDatabase Restart Swap
	for i := range opw {
		if r.Chance(1, 5) {
			opw[i] = 0
		}
	}
	opw[0] |= 1
	names := []string{"Append", "AppendSignature", "Remove", "RemoveSignature", "BytesExists", "SigDataExists", "Exists", "AppendList", "AppendDatabase", "Restart", "Swap"}
	var c dbCfg
	if or := r.Fork("owners"); or.Chance(1, 3) {
		c.Owners = 1 + or.Intn(len(dbOwnerSets)-1)
	}
	switch r.Intn(6) {
	case 0:
		c.Start = Pick(r, dbFixtures)
	case 1:
		c.Start = "gen"
		for i := r.Range(1, 3); i > 0; i-- {
			c.Gen = append(c.Gen, genListSpec(r, types, nown, true))
		}
	}
	pickTD := func() (int, int) {
		t := Pick(r, types)
		return t, Pick(r, dbCompat[t])
	}
	nops := r.Range(1, 40)
	if r.Chance(2, 3) {
		nops = r.Range(1, 12)
	}
	var ops []dbOp
	for i := 0; i < nops; i++ {
		k := r.Weighted(opw)
		op := dbOp{Op: names[k]}
		switch op.Op {
		case "Exists", "AppendList":
			l := genListSpec(r, types, nown, false)
			op.List = &l
			op.T = l.T
		case "AppendDatabase":
			for j := r.Range(1, 2); j > 0; j-- {
				op.Lists = append(op.Lists, genListSpec(r, types, nown, false))
			}
		case "Restart":
			op.D = r.Intn(4)
		case "Swap":
			op.D = r.Intn(4)
		default:
			op.T, op.D = pickTD()
			op.O = r.Intn(nown)
		}
		ops = append(ops, op)
	}
	if r.Chance(1, 15) {
		// a long history on one list: it grows to 10-40 entries and is then taken apart from the front, the middle and the
		// back, with queries in between (implementations that reorganise their storage at some size show here)
		ops = nil
		n := r.Range(10, 40)
		var present []int
		for k := 0; k < n; k++ {
			ops = append(ops, dbOp{Op: "Append", T: 0, O: k % nown, D: 100 + k})
			present = append(present, k)
		}
		for len(present) > 0 && len(ops) < 120 {
			j := 0
			switch r.Intn(4) {
			case 0:
				j = len(present) - 1
			case 1:
				j = r.Intn(len(present))
			}
			k := present[j]
			present = append(present[:j], present[j+1:]...)
			ops = append(ops, dbOp{Op: Pick(r, []string{"Remove", "RemoveSignature"}), T: 0, O: k % nown, D: 100 + k})
			if r.Chance(1, 3) && len(present) > 0 {
				q := Pick(r, present)
				ops = append(ops, dbOp{Op: Pick(r, []string{"BytesExists", "SigDataExists"}), T: 0, O: q % nown, D: 100 + q})
			}
			if r.Chance(1, 10) {
				ops = append(ops, dbOp{Op: "Restart", D: r.Intn(3)})
			}
			if r.Chance(1, 8) {
				ops = append(ops, dbOp{Op: "Append", T: 0, O: k % nown, D: 100 + k}) // and back in
				present = append(present, k)
			}
			if r.Chance(1, 12) {
				break
			}
		}
		c.Start, c.Gen = "", nil
	}
	if r.Chance(1, 12) {
		// two databases from the start: the second one is merged into the (possibly still empty) first, and the history goes on on both
		first := dbOp{Op: "AppendDatabase"}
		for j := r.Range(1, 3); j > 0; j-- {
			first.Lists = append(first.Lists, genListSpec(r, types, nown, false))
		}
		ops = append([]dbOp{first}, ops...)
		for k := r.Range(1, 3); k > 0 && len(ops) > 2; k-- {
			at := 1 + r.Intn(len(ops)-1)
			ops = append(ops[:at], append([]dbOp{{Op: "Swap", D: r.Intn(4)}}, ops[at:]...)...)
		}
	}
	return &Trace{Property: "C09", Engine: "dbhist", Seed: seed, Run: run, Tier: tier,
		Cfg: mustJSON(c), Ops: rawList(ops), Faults: []json.RawMessage{}, Schedule: []json.RawMessage{}}
}

func genListSpec(r *R, types []int, nown int, wellFormedOnly bool) dbListSpec {
	t := Pick(r, types)
	if wellFormedOnly {
		for dbTypes[t].Kind == "unknown" {
			t = Pick(r, []int{0, 1})
		}
	}
	l := dbListSpec{T: t}
	n := r.Range(1, 4)
	for i := 0; i < n; i++ {
		d := Pick(r, dbCompat[t])
		if wellFormedOnly {
			switch t {
			case 0:
				d = r.Intn(4)
			case 1:
				d = Pick(r, []int{6, 7}) // equal length
			}
		}
		l.Items = append(l.Items, dbItem{O: r.Intn(nown), D: d})
	}
	if !wellFormedOnly {
		for r.Chance(1, 3) && len(l.Rm) < 3 {
			if r.Bool() {
				l.Rm = append(l.Rm, Pick(r, l.Items))
			} else {
				l.Rm = append(l.Rm, dbItem{O: r.Intn(nown), D: Pick(r, dbCompat[t])})
			}
		}
		l.Restart = r.Chance(1, 5)
		if dbTypes[t].Kind != "supported" && dbTypes[t].Kind != "extmgmt" && r.Chance(1, 2) {
			l.Hdr = Pick(r, []int{1, 4, 16, 23})
		}
	}
	return l
}

// ---- the abstract view ----

type dbEntry struct {
	T [16]byte
	O [16]byte
	D string
}

func entryOf(t, o int, data []byte) dbEntry {
	var e dbEntry
	copy(e.T[:], refGUIDWire(dbTypes[t].G))
	copy(e.O[:], refGUIDWire(dbOwner(o)))
	e.D = string(data)
	return e
}

func viewOf(db *signature.SignatureDatabase) []dbEntry {
	var v []dbEntry
	for _, l := range *db {
		if l == nil {
			continue
		}
		for _, s := range l.Signatures {
			var e dbEntry
			copy(e.T[:], refGUIDWire(l.SignatureType))
			copy(e.O[:], refGUIDWire(s.Owner))
			e.D = string(s.Data)
			v = append(v, e)
		}
	}
	return v
}

func viewHas(v []dbEntry, e dbEntry) bool {
	for _, x := range v {
		if x == e {
			return true
		}
	}
	return false
}

// viewMinusOne: is `after` equal to `before` with exactly one occurrence of e inserted (anywhere)?
func insertedOne(before, after []dbEntry, e dbEntry) bool {
	if len(after) != len(before)+1 {
		return false
	}
	for i := range after {
		if after[i] != e {
			continue
		}
		rest := append(append([]dbEntry{}, after[:i]...), after[i+1:]...)
		if reflect.DeepEqual(rest, append([]dbEntry{}, before...)) || (len(rest) == 0 && len(before) == 0) {
			return true
		}
	}
	return false
}

func viewsEqual(a, b []dbEntry) bool {
	if len(a) != len(b) {
		return false
	}
	for i := range a {
		if a[i] != b[i] {
			return false
		}
	}
	return true
}

// isSubsequence: a appears in b in order.
func isSubsequence(a, b []dbEntry) bool {
	i := 0
	for _, x := range b {
		if i < len(a) && a[i] == x {
			i++
		}
	}
	return i == len(a)
}

// structural snapshot of the database (lists with their size fields)
func dbSnapshot(db *signature.SignatureDatabase) string {
	var b bytes.Buffer
	for _, l := range *db {
		fmt.Fprintf(&b, "[%x ls=%d hs=%d s=%d h=%x:", refGUIDWire(l.SignatureType), l.ListSize, l.HeaderSize, l.Size, l.SignatureHeader)
		for _, s := range l.Signatures {
			fmt.Fprintf(&b, "(%x,%x)", refGUIDWire(s.Owner), s.Data)
		}
		b.WriteString("]")
	}
	return b.String()
}

// checkWellFormed: duplicate-free lists, size equations, encodes to a
// well-formed stream that decodes (by refesl) to the view.
func dbWellFormed(db *signature.SignatureDatabase) (oracle, detail string) {
	for li, l := range *db {
		if l == nil {
			return "dbhist.size_equations", fmt.Sprintf("list %d is nil", li)
		}
		seen := map[string]bool{}
		for _, s := range l.Signatures {
			k := string(refGUIDWire(s.Owner)) + string(s.Data)
			if seen[k] {
				return "dbhist.no_duplicate_in_list", fmt.Sprintf("list %d (%s) holds the entry owner=%x data=%s twice", li, typeName(l.SignatureType), refGUIDWire(s.Owner), shortHex(s.Data))
			}
			seen[k] = true
			if uint32(16+len(s.Data)) != l.Size {
				return "dbhist.size_equations", fmt.Sprintf("list %d (%s): SignatureSize=%d but an entry has %d data bytes (+16)", li, typeName(l.SignatureType), l.Size, len(s.Data))
			}
		}
		if l.HeaderSize != uint32(len(l.SignatureHeader)) {
			return "dbhist.size_equations", fmt.Sprintf("list %d: SignatureHeaderSize=%d, header has %d bytes", li, l.HeaderSize, len(l.SignatureHeader))
		}
		if want := 28 + l.HeaderSize + uint32(len(l.Signatures))*l.Size; l.ListSize != want {
			return "dbhist.size_equations", fmt.Sprintf("list %d (%s): SignatureListSize=%d, 28+%d+%d*%d=%d", li, typeName(l.SignatureType), l.ListSize, l.HeaderSize, len(l.Signatures), l.Size, want)
		}
	}
	enc := db.Bytes()
	ls, err := refESLDecode(enc)
	if err != nil {
		return "dbhist.encodes_well_formed", fmt.Sprintf("Bytes() is not a well-formed EFI_SIGNATURE_LIST stream: %v", err)
	}
	var v []dbEntry
	for _, l := range ls {
		for _, s := range l.Sigs {
			v = append(v, dbEntry{T: l.Type, O: s.Owner, D: string(s.Data)})
		}
	}
	if !viewsEqual(v, viewOf(db)) {
		return "dbhist.encodes_well_formed", "Bytes() decodes (independently) to different entries than the database holds"
	}
	return "", ""
}

func typeName(g util.EFIGUID) string {
	for _, t := range dbTypes {
		if t.G == g {
			return t.Name
		}
	}
	return refGUIDText(g)
}

func typeSig(t int) string { return dbTypes[t].Name }

// build a list through the list-level API, judging every list-level append
func buildList(x *X, i int, kind string, spec dbListSpec) (*signature.SignatureList, bool) {
	l := signature.NewSignatureList(dbTypes[spec.T].G)
	for _, it := range spec.Items {
		data := dbData(it.D)
		stored := dbNorm(spec.T, it.D)
		before := listSnapshot(l)
		dup := false
		for _, s := range l.Signatures {
			if s.Owner == dbOwner(it.O) && bytes.Equal(s.Data, stored) {
				dup = true
			}
		}
		wrongSize := (spec.T == 0 && len(data) != 32) || (len(l.Signatures) > 0 && l.Size != uint32(16+len(stored)))
		// the two list-level entry points in turn
		var err error
		how := "AppendBytes"
		if (it.O+it.D+len(l.Signatures))%2 == 1 {
			how = "AppendSignature"
			err = l.AppendSignature(signature.SignatureData{Owner: dbOwner(it.O), Data: dbCallerData(spec.T, it.D)})
		} else {
			err = l.AppendBytes(dbOwner(it.O), dbCallerData(spec.T, it.D))
		}
		x.Logf("   list.%s(%s, o%d, d%d) -> %v", how, typeSig(spec.T), it.O, it.D, err)
		sig := map[string]string{"level": "list", "type": typeSig(spec.T), "dup": fmt.Sprint(dup), "wrong_size": fmt.Sprint(wrongSize), "pem": fmt.Sprint(dbIsPEM(spec.T, it.D))}
		fail := func(oracle, format string, a ...any) {
			x.Fail(oracle, i, kind, format, a...)
			if x.Viol != nil && x.Viol.Sig == nil {
				x.Viol.Sig = sig
			}
		}
		if err != nil {
			if dup {
				x.Probe("list_duplicate_rejected")
			} else if wrongSize {
				x.Probe("list_wrong_size_rejected")
			}
			if listSnapshot(l) != before {
				fail("dbhist.failed_op_changes_nothing", "list-level append failed (%v) but the list changed", err)
				return nil, false
			}
			continue
		}
		if dup {
			x.Probe("list_duplicate_attempt")
			fail("dbhist.duplicate_append_is_error", "list-level append of an entry the list already holds succeeded")
			return nil, false
		}
		if wrongSize {
			x.Probe("list_wrong_size_attempt")
			fail("dbhist.wrong_size_append_is_error", "list-level append of %d data bytes into a list of SignatureSize %d (type %s) succeeded", len(stored), l.Size, typeSig(spec.T))
			return nil, false
		}
		if !listHas(l, dbOwner(it.O), stored) {
			fail("dbhist.append_adds_one_entry", "list-level append succeeded but the list does not hold the entry (PEM stored as DER expected: %v)", dbIsPEM(spec.T, it.D))
			return nil, false
		}
	}
	for _, it := range spec.Rm {
		data := dbData(it.D)
		present := listHas(l, dbOwner(it.O), data)
		ambig := dbIsPEM(spec.T, it.D) && listHas(l, dbOwner(it.O), dbNorm(spec.T, it.D))
		before := listSnapshot(l)
		nb := len(l.Signatures)
		err := l.RemoveBytes(dbOwner(it.O), append([]byte(nil), data...))
		x.Logf("   list.RemoveBytes(%s, o%d, d%d) present=%v -> %v", typeSig(spec.T), it.O, it.D, present, err)
		sig := map[string]string{"level": "list", "type": typeSig(spec.T), "op": "remove"}
		fail := func(oracle, format string, a ...any) {
			x.Fail(oracle, i, kind, format, a...)
			if x.Viol != nil && x.Viol.Sig == nil {
				x.Viol.Sig = sig
			}
		}
		if err != nil {
			if listSnapshot(l) != before {
				fail("dbhist.failed_op_changes_nothing", "list-level remove failed (%v) but the list changed", err)
				return nil, false
			}
			if present {
				fail("dbhist.present_remove_succeeds", "list-level remove of an entry the list holds reported %v", err)
				return nil, false
			}
			continue
		}
		if !present && !ambig {
			fail("dbhist.remove_absent_is_error", "list-level remove of an entry the list does not hold reported success")
			return nil, false
		}
		if len(l.Signatures) != nb-1 {
			fail("dbhist.remove_deletes_one_entry", "list-level remove: %d entries before, %d after", nb, len(l.Signatures))
			return nil, false
		}
		if present && listHas(l, dbOwner(it.O), data) {
			fail("dbhist.remove_deletes_one_entry", "list-level remove succeeded but the entry is still in the list")
			return nil, false
		}
		x.Probe("list_remove")
	}
	if spec.Restart && len(l.Signatures) > 0 && dbTypes[spec.T].Kind == "supported" {
		enc := l.Bytes()
		nl, err := signature.ReadSignatureList(bytes.NewReader(enc))
		x.Logf("   list restart: %d bytes -> err=%v", len(enc), err)
		if err != nil {
			x.Fail("dbhist.restart_decodes_own_output", i, kind, "the library cannot decode a list it encoded (%s): %v", typeSig(spec.T), err)
			x.Viol.Sig = map[string]string{"level": "list", "type": typeSig(spec.T), "op": "restart"}
			return nil, false
		}
		a, b := signature.SignatureDatabase{l}, signature.SignatureDatabase{nl}
		if !viewsEqual(viewOf(&a), viewOf(&b)) {
			x.Fail("dbhist.restart_preserves_view", i, kind, "decode(encode(list)) differs from the list")
			x.Viol.Sig = map[string]string{"level": "list", "type": typeSig(spec.T), "op": "restart", "lost": "other"}
			return nil, false
		}
		l = nl
		x.Probe("list_restart")
	}
	if spec.Hdr > 0 && len(l.Signatures) > 0 {
		// the exported fields are the only way to give a list a header
		l.SignatureHeader = bytes.Repeat([]byte{0xC3}, spec.Hdr)
		l.HeaderSize = uint32(spec.Hdr)
		l.ListSize += uint32(spec.Hdr)
		x.Probe("list_with_header")
	}
	one := signature.SignatureDatabase{l}
	if len(l.Signatures) > 0 {
		if o, d := dbWellFormed(&one); o != "" {
			x.Fail(o, i, kind, "list built through the list-level API: %s", d)
			if x.Viol != nil && x.Viol.Sig == nil {
				x.Viol.Sig = map[string]string{"level": "list", "type": typeSig(spec.T)}
			}
			return nil, false
		}
	}
	return l, true
}

func listHas(l *signature.SignatureList, o util.EFIGUID, d []byte) bool {
	for _, s := range l.Signatures {
		if s.Owner == o && bytes.Equal(s.Data, d) {
			return true
		}
	}
	return false
}

func listSnapshot(l *signature.SignatureList) string {
	d := signature.SignatureDatabase{l}
	return dbSnapshot(&d)
}

func (e *dbhistEngine) Exec(tr *Trace, x *X) {
	var c dbCfg
	if err := json.Unmarshal(tr.Cfg, &c); err != nil {
		harnessf("dbhist cfg: %v", err)
	}
	ops, err := unrawList[dbOp](tr.Ops)
	if err != nil {
		harnessf("dbhist ops: %v", err)
	}
	dbOwnerSet = c.Owners
	defer func() { dbOwnerSet = 0 }()
	db := signature.NewSignatureDatabase()
	// ---- start state ----
	switch c.Start {
	case "":
	case "gen":
		var ls []RefList
		for _, g := range c.Gen {
			if len(g.Items) == 0 {
				continue
			}
			l := RefList{}
			copy(l.Type[:], refGUIDWire(dbTypes[g.T].G))
			first := dbNorm(g.T, g.Items[0].D)
			l.Size = uint32(16 + len(first))
			seen := map[string]bool{}
			for _, it := range g.Items {
				d := dbNorm(g.T, it.D)
				k := fmt.Sprint(it.O, string(d))
				if len(d) != len(first) || seen[k] {
					continue
				}
				seen[k] = true
				var s RefSig
				copy(s.Owner[:], refGUIDWire(dbOwner(it.O)))
				s.Data = d
				l.Sigs = append(l.Sigs, s)
			}
			ls = append(ls, l)
		}
		enc := refESLEncode(ls)
		got, err := signature.ReadSignatureDatabase(bytes.NewReader(enc))
		x.Logf("start: generated stream of %d lists, %d bytes -> err=%v", len(ls), len(enc), err)
		if err != nil {
			// undecodable types in the start stream: start empty instead
			x.Probe("start_undecodable")
		} else {
			db = &got
		}
	default:
		raw := fixture("repo", "esl", c.Start)
		if _, err := refESLDecode(raw); err != nil {
			raw = raw[4:] // variable file: attribute word first
			if _, err := refESLDecode(raw); err != nil {
				harnessf("fixture %s is not a signature list stream: %v", c.Start, err)
			}
		}
		got, err := signature.ReadSignatureDatabase(bytes.NewReader(raw))
		x.Logf("start: fixture %s (%d bytes) -> err=%v", c.Start, len(raw), err)
		if err != nil {
			x.Probe("start_undecodable")
		} else {
			db = &got
			x.Probe("start_from_fixture")
		}
	}
	if o, d := dbWellFormed(db); o != "" {
		x.Fail(o, -1, "Start", "decoded start database: %s", d)
		x.Viol.Sig = map[string]string{"level": "start", "bad_list": dbBadListClass(db)}
		return
	}

	mut := 0
	nonEmpty := false
	var heldEnc, heldCopy []byte
	heldAt := 0
	var aux []*signature.SignatureDatabase // databases that were merged into db and are still alive
	for i, op := range ops {
		if x.Failed() {
			return
		}
		x.Steps++
		before := viewOf(db)
		snap := dbSnapshot(db)
		shadows := make([]dbShadow, len(aux))
		for k, a := range aux {
			shadows[k] = shadowOf(a, db)
		}
		kind := op.Op
		sig := map[string]string{"level": "db", "type": typeSig(op.T % len(dbTypes))}
		fail := func(oracle, format string, a ...any) {
			x.Fail(oracle, i, kind, format, a...)
			if x.Viol != nil && x.Viol.Sig == nil {
				x.Viol.Sig = sig
			}
		}
		var pv any
		func() {
			defer func() { pv = recover() }()
			switch op.Op {
			case "Append", "AppendSignature":
				tg, og := dbTypes[op.T].G, dbOwner(op.O)
				data := dbCallerData(op.T, op.D)
				stored := dbNorm(op.T, op.D)
				e := entryOf(op.T, op.O, stored)
				dup := viewHas(before, e)
				unknown := dbTypes[op.T].Kind == "unknown"
				wrong := op.T == 0 && len(data) != 32
				sig["dup"], sig["pem"], sig["unknown"], sig["wrong_size"] = fmt.Sprint(dup), fmt.Sprint(dbIsPEM(op.T, op.D)), fmt.Sprint(unknown), fmt.Sprint(wrong)
				var err error
				if op.Op == "Append" {
					err = db.Append(tg, og, data)
				} else {
					err = db.AppendSignature(tg, &signature.SignatureData{Owner: og, Data: data})
				}
				after := viewOf(db)
				x.Logf("op %d %s(%s,o%d,d%d) dup=%v -> %v  |view|=%d", i, op.Op, typeSig(op.T), op.O, op.D, dup, err, len(after))
				if err != nil {
					switch {
					case dup && dbIsPEM(op.T, op.D):
						x.Probe("duplicate_rejected_pem_form")
					case dup:
						x.Probe("duplicate_rejected")
					case unknown:
						x.Probe("unknown_type_rejected")
					case wrong:
						x.Probe("wrong_size_rejected")
					}
					if dbSnapshot(db) != snap {
						fail("dbhist.failed_op_changes_nothing", "append failed (%v) but the database changed", err)
					}
					if !dup && !unknown && !wrong {
						x.Probe("fresh_append_failed")
						if op.T <= 1 {
							// a 32-byte hash / a certificate that the database does not hold, of a
							// supported type: none of the error cases of the statement applies
							fail("dbhist.fresh_append_succeeds", "append of a new, well-sized %s entry was refused (%v); the statement reserves errors for duplicates, unknown types and wrong sizes", typeSig(op.T), err)
						}
					}
					return
				}
				switch {
				case dup:
					x.Probe("duplicate_attempt")
					if dbIsPEM(op.T, op.D) {
						x.Probe("duplicate_attempt_pem")
					}
					fail("dbhist.duplicate_append_is_error", "append of an entry the database already holds (type %s, pem=%v) succeeded; view had %d entries", typeSig(op.T), dbIsPEM(op.T, op.D), len(before))
					return
				case unknown:
					fail("dbhist.unknown_type_append_is_error", "append with an unknown signature type succeeded")
					return
				case wrong:
					fail("dbhist.wrong_size_append_is_error", "append of a %d-byte SHA-256 entry succeeded", len(data))
					return
				}
				if !insertedOne(before, after, e) {
					fail("dbhist.append_adds_one_entry", "successful append: the new view is not the old view plus exactly the entry (type %s, PEM stored as DER: %v); |before|=%d |after|=%d", typeSig(op.T), dbIsPEM(op.T, op.D), len(before), len(after))
					return
				}
				mut++
			case "Remove", "RemoveSignature":
				tg, og := dbTypes[op.T].G, dbOwner(op.O)
				data := dbCallerData(op.T, op.D)
				e := entryOf(op.T, op.O, data)
				present := viewHas(before, e)
				eDER := entryOf(op.T, op.O, dbNorm(op.T, op.D))
				pemAmbig := dbIsPEM(op.T, op.D) && viewHas(before, eDER)
				var err error
				if op.Op == "Remove" {
					err = db.Remove(tg, og, data)
				} else {
					err = db.RemoveSignature(tg, &signature.SignatureData{Owner: og, Data: data})
				}
				after := viewOf(db)
				x.Logf("op %d %s(%s,o%d,d%d) present=%v -> %v  |view|=%d", i, op.Op, typeSig(op.T), op.O, op.D, present, err, len(after))
				if err != nil {
					if !present {
						x.Probe("remove_absent_rejected")
					}
					if dbSnapshot(db) != snap {
						fail("dbhist.failed_op_changes_nothing", "remove failed (%v) but the database changed", err)
					}
					if present {
						x.Probe("present_remove_failed")
						fail("dbhist.present_remove_succeeds", "remove of an entry the database holds (the membership view has it) reported %v", err)
					}
					return
				}
				target := e
				if !present {
					if !pemAmbig {
						fail("dbhist.remove_absent_is_error", "removing an entry the database does not hold reported success")
						return
					}
					target = eDER // removing by PEM form: accepted either way
				}
				if !insertedOne(after, before, target) {
					fail("dbhist.remove_deletes_one_entry", "successful remove: the old view is not the new view plus exactly the removed entry; |before|=%d |after|=%d", len(before), len(after))
					return
				}
				for li, l := range *db {
					if len(l.Signatures) == 0 {
						fail("dbhist.emptied_list_is_dropped", "list %d (%s) is empty after the remove", li, typeName(l.SignatureType))
						return
					}
				}
				if len(*db) < countLists(snap) {
					x.Probe("remove_emptied_list")
				}
				mut++
			case "BytesExists", "SigDataExists":
				tg, og := dbTypes[op.T].G, dbOwner(op.O)
				data := dbCallerData(op.T, op.D)
				want := viewHas(before, entryOf(op.T, op.O, data))
				ambig := dbIsPEM(op.T, op.D) && viewHas(before, entryOf(op.T, op.O, dbNorm(op.T, op.D)))
				var got bool
				if op.Op == "BytesExists" {
					got = db.BytesExists(tg, og, data)
				} else {
					got = db.SigDataExists(tg, &signature.SignatureData{Owner: og, Data: data})
				}
				x.Logf("op %d %s(%s,o%d,d%d) -> %v (view says %v)", i, op.Op, typeSig(op.T), op.O, op.D, got, want)
				if dbSnapshot(db) != snap {
					fail("dbhist.query_changes_nothing", "membership query changed the database")
					return
				}
				if got != want && !ambig {
					other := false
					for _, b := range before {
						if b.O == entryOf(op.T, op.O, data).O && b.D == string(data) {
							other = true
						}
					}
					sig["same_data_other_type"] = fmt.Sprint(other)
					fail("dbhist.query_agrees_with_view", "%s answered %v, the view says %v (an entry with the same owner and data under another type exists: %v)", op.Op, got, want, other)
					return
				}
				if want {
					x.Probe("query_hit")
				}
			case "Exists", "AppendList":
				l, ok := buildList(x, i, kind, *op.List)
				if !ok {
					return
				}
				if len(l.Signatures) == 0 {
					return // nothing was accepted into the list: nothing to append or ask for
				}
				if op.Op == "Exists" {
					want := true
					for _, s := range l.Signatures {
						var en dbEntry
						copy(en.T[:], refGUIDWire(l.SignatureType))
						copy(en.O[:], refGUIDWire(s.Owner))
						en.D = string(s.Data)
						if !viewHas(before, en) {
							want = false
						}
					}
					same := 0
					for _, dl := range *db {
						if dl.SignatureType == l.SignatureType && dl.Size == l.Size {
							same++
							if !bytes.Equal(dl.SignatureHeader, l.SignatureHeader) {
								// the statement's view has no headers: whether a list with another header
								// "is" the queried list is not fixed by it -- accept either answer
								same += 2
							}
						}
					}
					got := db.Exists(l.SignatureType, l)
					x.Logf("op %d Exists(%s list of %d) -> %v (view says %v, %d lists with that header)", i, typeSig(op.List.T), len(l.Signatures), got, want, same)
					if dbSnapshot(db) != snap {
						fail("dbhist.query_changes_nothing", "membership query changed the database")
						return
					}
					if got != want && same <= 1 {
						fail("dbhist.query_agrees_with_view", "Exists answered %v, the view says %v", got, want)
					}
					return
				}
				var add []dbEntry
				for _, s := range l.Signatures {
					var en dbEntry
					copy(en.T[:], refGUIDWire(l.SignatureType))
					copy(en.O[:], refGUIDWire(s.Owner))
					en.D = string(s.Data)
					add = append(add, en)
				}
				db.AppendList(l)
				after := viewOf(db)
				x.Logf("op %d AppendList(%s list of %d)  |view|=%d", i, typeSig(op.List.T), len(l.Signatures), len(after))
				if !viewsEqual(after, append(append([]dbEntry{}, before...), add...)) && !(isSubsequence(before, after) && len(after) == len(before)+len(add)) {
					fail("dbhist.append_list_adds_its_entries", "after AppendList the view is not the old view plus the list's entries")
					return
				}
				x.Probe("append_list")
				mut++
			case "AppendDatabase":
				other := signature.NewSignatureDatabase()
				n := 0
				for _, ls := range op.Lists {
					l, ok := buildList(x, i, kind, ls)
					if !ok {
						return
					}
					if len(l.Signatures) == 0 {
						continue
					}
					other.AppendList(l)
					n += len(l.Signatures)
				}
				db.AppendDatabase(other)
				if len(*other) > 0 {
					aux = append(aux, other)
				}
				after := viewOf(db)
				x.Logf("op %d AppendDatabase(%d lists, %d entries)  |view|=%d", i, len(*other), n, len(after))
				if !(isSubsequence(before, after) && len(after) == len(before)+n) {
					fail("dbhist.append_list_adds_its_entries", "after AppendDatabase the view is not the old view plus the other database's entries")
					return
				}
				if n > 0 {
					mut++
				}
			case "Swap":
				// the history continues on one of the databases that were merged into this one; this one stays alive
				if len(aux) == 0 {
					return
				}
				k := op.D % len(aux)
				for _, l := range *aux[k] {
					if l == nil || len(l.Signatures) == 0 {
						// a list this database shares with the other one was emptied over there: what that means for this
						// database is outside the statement (it speaks about one database), so the history does not move here
						x.Probe("swap_skipped_shared_list_was_emptied")
						return
					}
				}
				db, aux[k] = aux[k], db
				shadows = nil
				x.Logf("op %d Swap: the history continues on merged database %d (%d lists)", i, k, len(*db))
				x.Probe("history_continues_on_merged_source")
			case "Restart":
				enc := db.Bytes()
				// decode from a buffer the caller owns and goes on to reuse (Unmarshal's signature asks for one)
				cbuf := bytes.NewBuffer(append([]byte(nil), enc...))
				backing := cbuf.Bytes()
				var got signature.SignatureDatabase
				var err error
				switch op.D % 4 {
				case 3:
					// a reader that delivers a few bytes at a time (a pipe, a socket, a buffered file): legal, and every
					// decoder has to cope with it
					got, err = signature.ReadSignatureDatabase(&shortReader{r: cbuf, n: 1 + (i*7)%13})
					x.Probe("restart_through_short_reads")
				case 0:
					got, err = signature.ReadSignatureDatabase(cbuf)
				case 1:
					err = got.Unmarshal(cbuf)
				default:
					// decode into the live database itself (reloading a variable into the object one already has). Only when
					// the decoder is known to accept the stream: a failed decode into a live object is outside the statement.
					if _, e2 := signature.ReadSignatureDatabase(bytes.NewReader(enc)); e2 != nil {
						// the decoder refuses this stream (a type it does not implement): decoding it into the live database has
						// to report that and, like every failed operation, change nothing
						got, err = signature.SignatureDatabase{}, e2
						if e3 := db.Unmarshal(cbuf); e3 == nil {
							fail("dbhist.restart_decodes_own_output", "ReadSignatureDatabase refuses the stream (%v) but Unmarshal into the live database accepts it", e2)
							return
						}
						if dbSnapshot(db) != snap {
							fail("dbhist.failed_op_changes_nothing", "decoding a stream the decoder refuses into the live database failed, and changed the database")
							return
						}
						x.Probe("failed_decode_into_live_database")
					} else {
						live := *db
						err = live.Unmarshal(cbuf)
						got = live
						x.Probe("restart_into_live_database")
					}
				}
				for k := range backing {
					backing[k] = 0xEE
				}
				cbuf.Reset()
				cbuf.WriteString("the caller reuses its buffer")
				allSupported := true
				for _, l := range *db {
					k := "unknown"
					for _, t := range dbTypes {
						if t.G == l.SignatureType {
							k = t.Kind
						}
					}
					if k != "supported" && k != "extmgmt" {
						allSupported = false
					}
				}
				plain := allSupported
				for _, l := range *db {
					if l.SignatureType == signature.CERT_EXTERNAL_MANAGEMENT_GUID {
						plain = false // (what decoding does to those lists is the known finding, judged below)
					}
				}
				if plain && op.D%2 == 0 {
					// the same stream with one more list that holds no entry (28 bytes; SignatureSize 0 is what a list nothing
					// was ever added to carries): well-formed, decodes to the same entries
					var hdr [28]byte
					copy(hdr[:], refGUIDWire(signature.CERT_X509_GUID))
					hdr[16] = 28
					if op.D%4 == 0 {
						hdr[24], hdr[25] = 0x30, 0x03 // ...or the size of a certificate that is gone again
					}
					var g2 signature.SignatureDatabase
					var e2 error
					func() {
						defer func() {
							if r := recover(); r != nil {
								e2 = fmt.Errorf("panic: %v", r)
							}
						}()
						g2, e2 = signature.ReadSignatureDatabase(bytes.NewReader(append(append([]byte(nil), enc...), hdr[:]...)))
					}()
					if e2 != nil || !viewsEqual(viewOf(&g2), before) {
						fail("dbhist.restart_decodes_own_output", "the encoded database followed by a list without entries (28-byte header) does not decode to the same entries: err=%v, %d entries, expected %d", e2, len(viewOf(&g2)), len(before))
						return
					}
					x.Probe("restart_with_entryless_list")
				}
				x.Logf("op %d Restart: %d bytes, all types decodable=%v -> err=%v", i, len(enc), allSupported, err)
				if err != nil {
					if allSupported {
						fail("dbhist.restart_decodes_own_output", "the library cannot decode what it encoded (types %s): %v", dbTypesIn(db), err)
					}
					x.Probe("restart_kept_state")
					return
				}
				if !viewsEqual(viewOf(&got), before) {
					sig = map[string]string{"level": "db", "lost": dbLostClass(before, viewOf(&got))}
					fail("dbhist.restart_preserves_view", "decode(encode(db)) holds %d entries, the database held %d (types %s)", len(viewOf(&got)), len(before), dbTypesIn(db))
					return
				}
				db = &got
				x.Probe("restart")
			default:
				harnessf("dbhist: unknown op %q", op.Op)
			}
		}()
		if pv != nil {
			if he, ok := pv.(*HarnessError); ok {
				panic(he)
			}
			fail("dbhist.no_panic", "operation panicked: %v", pv)
			return
		}
		if x.Failed() {
			return
		}
		if o, d := dbWellFormed(db); o != "" {
			sig["bad_list"] = dbBadListClass(db)
			fail(o, "after the operation: %s", d)
			return
		}
		// an encoding the caller kept from an earlier step is still what it was (two encodings alive at once)
		if heldEnc != nil && !bytes.Equal(heldEnc, heldCopy) {
			fail("dbhist.kept_encoding_stays_valid", "the bytes Bytes() returned %d operation(s) ago changed afterwards: were %s, are now %s", i-heldAt, shortHex(heldCopy), shortHex(heldEnc))
			return
		}
		if i%3 == 0 || heldEnc == nil {
			heldEnc = db.Bytes()
			heldCopy = append([]byte(nil), heldEnc...)
			heldAt = i
		}
		// a database changes under its own operations (and through lists it shares with the database operated on), never otherwise:
		// the sequence of lists of every other live database is what it was, and so is every list that the operated database does not hold
		for k := range shadows {
			if k < len(aux) {
				if d := shadows[k].diff(shadowOf(aux[k], nil)); d != "" {
					sig["which"] = "other_database"
					fail("dbhist.other_database_untouched", "database %d was not operated on (the operation went to a database it was once merged with), but %s", k, d)
					return
				}
			}
		}
		// a database that was merged into this one is still a database of its own
		for k, a := range aux {
			if o, d := dbWellFormed(a); o != "" {
				sig["which"] = "merged_source"
				fail(o, "database %d, which was appended to this one earlier and is still in use: %s", k, d)
				return
			}
			x.Probe("merged_source_checked")
		}
		v := viewOf(db)
		if len(v) > 0 {
			nonEmpty = true
		}
		x.State(h64(dbSnapshot(db)))
	}
	x.Nontriv = mut >= 2 && nonEmpty
}

// dbShadow is what an operation on ANOTHER database must leave alone: which lists the database holds, in which
// order, and the content of those lists that the operated database does not hold as well.
type dbShadow struct {
	ptrs    []*signature.SignatureList
	content []string // "" for lists shared with the operated database
}

func shadowOf(d, operated *signature.SignatureDatabase) dbShadow {
	var sh dbShadow
	for _, l := range *d {
		shared := false
		if operated != nil {
			for _, m := range *operated {
				if m == l {
					shared = true
				}
			}
		}
		sh.ptrs = append(sh.ptrs, l)
		if shared || l == nil {
			sh.content = append(sh.content, "")
		} else {
			sh.content = append(sh.content, listSnapshot(l))
		}
	}
	return sh
}

func (a dbShadow) diff(b dbShadow) string {
	if len(a.ptrs) != len(b.ptrs) {
		return fmt.Sprintf("it held %d lists before the operation and holds %d now", len(a.ptrs), len(b.ptrs))
	}
	for i := range a.ptrs {
		if a.ptrs[i] != b.ptrs[i] {
			return fmt.Sprintf("its list %d is another list object now", i)
		}
		if a.content[i] != "" && b.ptrs[i] != nil && a.content[i] != listSnapshot(b.ptrs[i]) {
			return fmt.Sprintf("its list %d, which the operated database does not hold, changed", i)
		}
	}
	return ""
}

func countLists(snap string) int { return bytes.Count([]byte(snap), []byte("[")) }

func dbTypesIn(db *signature.SignatureDatabase) string {
	seen := map[string]bool{}
	var out []string
	for _, l := range *db {
		n := typeName(l.SignatureType)
		if !seen[n] {
			seen[n] = true
			out = append(out, n)
		}
	}
	return fmt.Sprint(out)
}

// dbBadListClass names the shape of the first ill-formed list in terms that
// identify a known finding without depending on sizes or positions.
func dbBadListClass(db *signature.SignatureDatabase) string {
	for _, l := range *db {
		want := 28 + l.HeaderSize + uint32(len(l.Signatures))*l.Size
		if l.ListSize == want {
			continue
		}
		if l.SignatureType == signature.CERT_EXTERNAL_MANAGEMENT_GUID && len(l.Signatures) == 0 && l.Size == 17 && (l.ListSize-28)%17 == 0 {
			return "extmgmt_decoded_without_data"
		}
		return "other"
	}
	return "none"
}

// dbLostClass says what a restart lost.
func dbLostClass(before, after []dbEntry) string {
	var ext [16]byte
	copy(ext[:], refGUIDWire(signature.CERT_EXTERNAL_MANAGEMENT_GUID))
	var kept []dbEntry
	lost := 0
	for _, e := range before {
		if e.T == ext {
			lost++
			continue
		}
		kept = append(kept, e)
	}
	if lost > 0 && viewsEqual(kept, after) {
		return "extmgmt_only"
	}
	return "other"
}

// shortReader delivers at most n bytes per Read.
type shortReader struct {
	r io.Reader
	n int
}

func (s *shortReader) Read(p []byte) (int, error) {
	if len(p) > s.n {
		p = p[:s.n]
	}
	return s.r.Read(p)
}
