package sim

import (
	"bytes"
	"crypto"
	"crypto/sha256"
	"encoding/binary"
	"encoding/json"
	"fmt"
	"github.com/foxboron/go-uefi/efi/util"
	"io"
	"sort"
	"sync"
	"time"

	"github.com/foxboron/go-uefi/authenticode"
	"github.com/foxboron/go-uefi/efi/signature"
	"github.com/foxboron/go-uefi/efivar"
	"github.com/foxboron/go-uefi/pkcs7"
)

// sched — property C19: read-only operations are pure, repeatable and safe to
// call concurrently. Three modes over the same seeded assignment of operations
// to clients: sequential histories, serialised interleavings under the seeded
// scheduler, and free-running goroutines under the race detector.

type scCfg struct {
	Object  string  `json:"object"` // image | db | update
	Image   ImgSpec `json:"image,omitempty"`
	Signers []int   `json:"signers,omitempty"`
	DB      int     `json:"db,omitempty"` // database variant
	Mode    string  `json:"mode"`         // seq | inter | free
	Clients int     `json:"clients"`
	Instant string  `json:"instant"`
	// Cold: the object under test is not used before the clients start: their first calls are the first calls on it
	// (whatever is initialised lazily is initialised under the schedule). The snapshot is taken afterwards.
	Cold bool `json:"cold,omitempty"`
	// Foreign (image objects): the image was first signed the way another tool signs (see signhist), then by Signers.
	Foreign *shForeign `json:"foreign,omitempty"`
	// Junk (image objects): behind the signatures the certificate table holds one more WIN_CERTIFICATE whose PKCS#7 blob
	// is not an Authenticode signature (a plain SignedData over data)
	Junk bool `json:"junk_entry,omitempty"`
	// Seekable (image objects): the medium the image was parsed from is a file-like object with a cursor of its own
	// (Read, Seek) besides ReadAt
	Seekable bool `json:"seekable_medium,omitempty"`
	// FaultAt > 0 (sequential runs on an image): the FaultAt-th read of the medium after the schedule starts fails once.
	// The operation it hits is not judged; every other call, before and after, answers as on a healthy medium, and the
	// object is what it was.
	FaultAt int `json:"fault_at,omitempty"`
	// StepS (sequential runs on a signed update): simulated seconds that pass between two calls
	StepS int `json:"step_s,omitempty"`
}

type scOp struct {
	C   int    `json:"c"`
	Op  string `json:"op"`
	Key int    `json:"key,omitempty"`
	// Scribble: the caller, who owns what a call returned to it, overwrites the returned memory (up to its capacity) once
	// it has looked at it. Results are copies: nothing the object holds may change by that.
	Scribble bool `json:"scribble,omitempty"`
	// Dest: which kind of destination buffer a Marshal call gets (scDest)
	Dest int `json:"dest,omitempty"`
}

type schedEngine struct{ variant string } // "", "instr", "race"

func init() {
	register(&schedEngine{})
	register(&schedEngine{variant: "instr"})
	register(&schedEngine{variant: "race"})
}

func (e *schedEngine) Name() string {
	if e.variant == "" {
		return "sched"
	}
	return "sched_" + e.variant
}
func (e *schedEngine) Property() string { return "C19" }

func (e *schedEngine) Plan(seed uint64, tier string) int {
	th := tier == "thorough"
	switch e.variant {
	case "instr":
		if th {
			return 400000
		}
		return 3000
	case "race":
		if th {
			return 100000
		}
		return 800
	}
	if th {
		return 1000000
	}
	return 8000
}

var scImageOps = []string{"Hash", "HashSHA1", "HashSHA512", "Bytes", "Open", "Signatures", "Verify", "VerifyOther"}
var scDBOps = []string{"Bytes", "Marshal", "BytesExists", "BytesExistsMiss", "BytesExistsPEM", "SigDataExists", "Exists"}
var scUpdateOps = []string{"Marshal", "Bytes", "DescMarshal", "DescVerify", "CallerEditsPayload", "DescZeroTimeMarshal", "CallerReusesParseBuffer"}
var scPkcs7Ops = []string{"Verify", "VerifyOther", "HasCertificate"}
var scAuthcodeOps = []string{"Verify", "VerifyOther"}
var scListOps = []string{"Bytes", "Exists", "ExistsMiss", "ExistsInList", "CmpHeader", "ExistsInListLong", "ExistsInListLongMiss"}

func (e *schedEngine) Gen(seed uint64, tier string, run int) *Trace {
	r := NewR(seed, e.Name(), run)
	var c scCfg
	switch e.variant {
	case "":
		c.Mode = Pick(r, []string{"seq", "inter", "inter"})
	case "instr":
		c.Mode = "inter"
	case "race":
		c.Mode = "free"
	}
	c.Object = Pick(r, []string{"image", "image", "image", "db", "db", "update", "update", "pkcs7", "authcode", "list", "dbdecoded"})
	if e.variant == "" && c.Mode == "inter" {
		c.Object = "image" // without inserted yields only image operations contain yield points
	}
	t, _ := genInstant(r)
	c.Instant = t.Format(time.RFC3339)
	var kinds []string
	switch c.Object {
	case "image":
		if r.Chance(1, 4) {
			c.Image = ImgSpec{Fixture: Pick(r, []string{"test.pecoff", "HelloWorld.efi.signed", "test.pecoff.signed"})}
		} else {
			c.Image = ImgSpec{Gen: genPESpec(r.Fork("img"))}
		}
		for i := r.Range(1, 2); i > 0; i-- {
			c.Signers = append(c.Signers, Pick(r, []int{0, 1, 0, 1, 4, 6}))
		}
		if fr := r.Fork("foreign"); c.Image.Gen != nil && fr.Chance(1, 5) {
			c.Foreign = &shForeign{Key: Pick(fr, []int{0, 1, 8, 21, 22, 23}), Extra: fr.Intn(4), PadInLen: fr.Chance(1, 3)}
			c.Foreign.Filler = !c.Foreign.PadInLen && fr.Chance(2, 3)
			if fr.Bool() {
				c.Signers = nil // signed by the other tool only
			}
		}
		c.Junk = c.Image.Gen != nil && r.Fork("junk").Chance(1, 6)
		c.Seekable = r.Fork("seekable").Chance(1, 3)
		if fr := r.Fork("fault"); c.Mode == "seq" && e.variant != "race" && fr.Chance(1, 4) {
			c.FaultAt = 1 + fr.Intn(40)
		}
		kinds = scImageOps
	case "db":
		c.DB = r.Intn(8) // 3, 4: with a list that the caller assembled by hand around a PEM encoded certificate; 5, 6: long lists; 7: lists of one type not adjacent
		kinds = scDBOps
	case "dbdecoded":
		c.DB = r.Intn(3)
		kinds = scDBOps
	case "pkcs7":
		c.Signers = []int{Pick(r, []int{0, 1, 8, 21, 22})}
		c.DB = r.Intn(4) // > 0: the SignedData comes from another signer, with that many extra authenticated attributes
		kinds = scPkcs7Ops
	case "authcode":
		c.Image = ImgSpec{Gen: genPESpec(r.Fork("img"))}
		c.Signers = []int{Pick(r, []int{0, 1, 9, 23})}
		c.DB = r.Intn(4)
		kinds = scAuthcodeOps
	case "list":
		c.DB = Pick(r, []int{0, 1, 2, 17, 40, 100, 100}) // up to 3+DB entries
		kinds = scListOps
	case "update":
		c.Signers = []int{Pick(r, []int{0, 1, 0, 1, 8, 12})}
		c.DB = r.Intn(5) // payload variant
		if c.Mode == "seq" && e.variant != "race" && r.Fork("clock").Chance(1, 2) {
			c.StepS = Pick(r, []int{1, 1, 2, 61, 3601})
		}
		kinds = scUpdateOps
	}
	c.Clients = 1
	if c.Mode != "seq" {
		c.Clients = Pick(r, []int{2, 2, 3, 4, 8, 16})
	}
	c.Cold = c.Mode == "inter" && r.Chance(1, 3)
	// swarm: a subset of the operation kinds per run
	var enabled []string
	for _, k := range kinds {
		if r.Chance(2, 3) {
			enabled = append(enabled, k)
		}
	}
	if len(enabled) == 0 {
		enabled = kinds[:1]
	}
	nops := r.Range(2, 12)
	if c.Mode != "seq" {
		nops = r.Range(c.Clients, 3*c.Clients)
		if nops > 40 {
			nops = 40
		}
	}
	var ops []scOp
	for i := 0; i < nops; i++ {
		cl := 0
		if c.Clients > 1 {
			cl = i % c.Clients
			if r.Chance(1, 3) {
				cl = r.Intn(c.Clients)
			}
		}
		ops = append(ops, scOp{C: cl, Op: Pick(r, enabled), Scribble: r.Chance(1, 4), Dest: r.Intn(4)})
	}
	var sw []Switch
	if c.Mode == "inter" {
		est := 12 * nops
		if e.variant == "instr" {
			est = Pick(r, []int{40, 200, 1000, 4000}) * nops / 4
		}
		switch r.Intn(3) {
		case 0: // PCT style: few switch points at random depths
			for d := r.Range(1, 3); d > 0; d-- {
				sw = append(sw, Switch{Yield: r.Intn(est), Next: r.Intn(c.Clients)})
			}
		case 1: // dense
			gap := Pick(r, []int{1, 2, 3, 5, 9})
			for y := r.Intn(gap + 1); y < est && len(sw) < 400; y += 1 + r.Intn(2*gap) {
				sw = append(sw, Switch{Yield: y, Next: r.Intn(c.Clients)})
			}
		default: // a burst somewhere
			at := r.Intn(est)
			for k := 0; k < r.Range(2, 30); k++ {
				sw = append(sw, Switch{Yield: at + k, Next: r.Intn(c.Clients)})
			}
		}
	}
	return &Trace{Property: "C19", Engine: e.Name(), Seed: seed, Run: run, Tier: tier,
		Cfg: mustJSON(c), Ops: rawList(ops), Faults: []json.RawMessage{}, Schedule: rawList(sw)}
}

// scObject is the shared object plus the operations on it.
type scObject struct {
	dumpRoot any
	do       func(op scOp) []byte
	hmu      sync.Mutex
	held     []scHeld
}

// scHeld is a result the caller keeps: the slice the library returned and a copy
// taken at that moment. A read-only operation must not hand out memory that a
// later read-only operation overwrites.
type scHeld struct {
	what string
	orig []byte
	copy []byte
}

func (o *scObject) hold(what string, b []byte, scribble ...bool) []byte {
	if len(scribble) > 0 && scribble[0] {
		// the caller keeps a copy and reuses the memory it was given
		c := append([]byte(nil), b...)
		full := b[:cap(b)]
		for i := range full {
			full[i] = 0xEE
		}
		return c
	}
	o.hmu.Lock()
	o.held = append(o.held, scHeld{what, b, append([]byte(nil), b...)})
	o.hmu.Unlock()
	return b
}

func (o *scObject) heldIntact() string {
	o.hmu.Lock()
	defer o.hmu.Unlock()
	for k, h := range o.held {
		if !bytes.Equal(h.orig, h.copy) {
			return fmt.Sprintf("the result of %s (kept by the caller, %d-th kept result) changed afterwards: was %s, is now %s", h.what, k, shortHex(h.copy), shortHex(h.orig))
		}
	}
	return ""
}

// scWithInput ties an object to the caller-provided bytes it was built from:
// a read-only operation must not write into its input either.
type scWithInput struct {
	Obj   any
	Input []byte
}

func scResult(b []byte, err error) []byte {
	if err != nil {
		return append([]byte("ERR:"), err.Error()...)
	}
	return append([]byte("OK:"), b...)
}

func (e *schedEngine) build(c scCfg, x *X, plane *Plane) (mk func() *scObject) {
	switch c.Object {
	case "image":
		var signed []byte
		at, err := time.Parse(time.RFC3339, c.Instant)
		if err != nil {
			harnessf("sched instant: %v", err)
		}
		// signing reads the clock: do it inside a bubble so that the bytes are a function of the seed
		if pv := inBubble(x.T, at.UTC(), "", func() {
			img := c.Image.Bytes()
			if c.Foreign != nil {
				img = shForeignSigned(img, *c.Foreign)
			}
			bin, err := authenticode.Parse(bytes.NewReader(img))
			if err != nil {
				harnessf("sched: parse %s: %v", c.Image.String(), err)
			}
			for _, k := range c.Signers {
				pk := Pool()[k%poolSize]
				if _, err := bin.Sign(pk.Key, pk.Cert); err != nil {
					harnessf("sched: sign: %v", err)
				}
			}
			signed = bin.Bytes()
			if c.Junk {
				pk := Pool()[1]
				blob, err := pkcs7.SignPKCS7(pk.Key, pk.Cert, pkcs7.OIDData, []byte("not an image signature"))
				if err != nil {
					harnessf("sched: junk entry: %v", err)
				}
				pe0, _, err := refPECertTable(signed)
				if err != nil || pe0.CertSize == 0 {
					harnessf("sched: junk entry: signed image not well-formed: %v", err)
				}
				entry := binary.LittleEndian.AppendUint32(nil, uint32(8+len(blob)))
				entry = binary.LittleEndian.AppendUint16(entry, 0x0200)
				entry = binary.LittleEndian.AppendUint16(entry, 0x0002)
				entry = append(entry, blob...)
				for len(entry)%8 != 0 {
					entry = append(entry, 0)
				}
				signed = append(append([]byte(nil), signed...), entry...)
				binary.LittleEndian.PutUint32(signed[pe0.CertDirOff+4:], uint32(int(pe0.CertSize)+len(entry)))
			}
		}); pv != nil {
			panic(pv)
		}
		var signer *PoolKey
		if len(c.Signers) > 0 {
			signer = Pool()[c.Signers[0]%poolSize]
		} else {
			signer = Pool()[c.Foreign.Key%poolSize]
		}
		other := Pool()[7]
		return func() *scObject {
			var medium io.ReaderAt = &SimReader{data: signed, p: plane}
			if c.Seekable {
				medium = &SimReadSeeker{SimReader: &SimReader{data: signed, p: plane}}
			}
			bin, err := authenticode.Parse(medium)
			if err != nil {
				harnessf("sched: reparse: %v", err)
			}
			var o *scObject
			o = &scObject{dumpRoot: bin, do: func(op scOp) []byte {
				switch op.Op {
				case "Hash":
					return scResult(o.hold("Hash(SHA256)", bin.Hash(crypto.SHA256), op.Scribble), nil)
				case "HashSHA1":
					return scResult(o.hold("Hash(SHA1)", bin.Hash(crypto.SHA1), op.Scribble), nil)
				case "HashSHA512":
					return scResult(o.hold("Hash(SHA512)", bin.Hash(crypto.SHA512), op.Scribble), nil)
				case "Bytes":
					return scResult(o.hold("Bytes()", bin.Bytes(), op.Scribble), nil)
				case "Open":
					b, err := io.ReadAll(bin.Open())
					return scResult(b, err)
				case "Signatures":
					sigs, err := bin.Signatures()
					var b bytes.Buffer
					for k, s := range sigs {
						fmt.Fprintf(&b, "%d/%x/%x:", s.Length, s.Revision, s.CertType)
						b.Write(s.Certificate)
						o.hold(fmt.Sprintf("Signatures()[%d].Certificate", k), s.Certificate, op.Scribble)
					}
					return scResult(b.Bytes(), err)
				case "Verify":
					ok, err := bin.Verify(signer.Cert)
					return scResult([]byte(fmt.Sprint(ok)), err)
				case "VerifyOther":
					ok, err := bin.Verify(other.Cert)
					return scResult([]byte(fmt.Sprint(ok)), err)
				}
				harnessf("sched: image op %q", op.Op)
				return nil
			}}
			return o
		}
	case "db":
		return func() *scObject {
			db := signature.NewSignatureDatabase()
			add := func(t, o, d int) {
				if err := db.Append(dbTypes[t].G, dbOwners[o], append([]byte(nil), dbData(d)...)); err != nil {
					harnessf("sched: db setup: %v", err)
				}
			}
			if c.DB == 7 {
				// certificate, hash, certificate of another length: the two certificate lists are not neighbours
				add(1, 0, 6)
				add(0, 0, 0)
				add(1, 1, 8)
			}
			add(0, 0, 0+c.DB/7)
			add(0, 1, 1+c.DB/7)
			add(1, 0, 6+c.DB/7)
			if c.DB >= 1 {
				add(1, 1, 7)
				add(0, 2, 2)
			}
			if c.DB >= 2 {
				add(1, 2, 8)
				add(0, 0, 3)
			}
			if c.DB >= 5 {
				// long lists (an implementation may treat them differently from short ones)
				for k := 0; k < 20*(c.DB-4); k++ {
					h := sha256.Sum256([]byte(fmt.Sprint("long list entry ", k)))
					if err := db.Append(dbTypes[0].G, dbOwners[k%3], h[:]); err != nil {
						harnessf("sched: db setup: %v", err)
					}
				}
			}
			if c.DB == 3 || c.DB == 4 {
				// a list assembled by hand (struct literal + AppendList), holding the certificate in the form the caller had: PEM
				pemData := append([]byte(nil), dbData(9+c.DB-3)...)
				hand := &signature.SignatureList{SignatureType: dbTypes[1].G, ListSize: uint32(28 + 16 + len(pemData)), HeaderSize: 0, Size: uint32(16 + len(pemData)),
					SignatureHeader: []byte{}, Signatures: []signature.SignatureData{{Owner: dbOwners[2], Data: pemData}}}
				db.AppendList(hand)
			}
			probe := signature.NewSignatureList(dbTypes[0].G)
			probe.AppendBytes(dbOwners[0], dbData(0))
			probe.AppendBytes(dbOwners[1], dbData(1))
			var o *scObject
			o = &scObject{dumpRoot: db, do: func(op scOp) []byte {
				switch op.Op {
				case "Bytes":
					// a database, one of its lists and one of its entries are encoded in turn: three results to keep
					r := o.hold("db.Bytes()", db.Bytes(), op.Scribble)
					if len(*db) > 0 {
						o.hold("list.Bytes()", (*db)[len(*db)-1].Bytes())
						if sg := (*db)[0].Signatures; len(sg) > 0 {
							o.hold("entry.Bytes()", sg[0].Bytes())
						}
					}
					return scResult(r, nil)
				case "Marshal":
					b, skip := scDest(op.Dest)
					db.Marshal(b)
					return scOwnBufferAt(b, skip)
				case "BytesExists":
					return scResult([]byte(fmt.Sprint(db.BytesExists(dbTypes[1].G, dbOwners[0], dbData(6)))), nil)
				case "BytesExistsMiss":
					return scResult([]byte(fmt.Sprint(db.BytesExists(dbTypes[0].G, dbOwners[2], dbData(1)))), nil)
				case "BytesExistsPEM":
					// the hand-assembled entry, asked for in the form it was put in and in DER
					return scResult([]byte(fmt.Sprint(db.BytesExists(dbTypes[1].G, dbOwners[2], dbData(9)), db.BytesExists(dbTypes[1].G, dbOwners[2], dbData(10)),
						db.BytesExists(dbTypes[1].G, dbOwners[2], dbData(6)), db.BytesExists(dbTypes[1].G, dbOwners[2], dbData(7)))), nil)
				case "SigDataExists":
					return scResult([]byte(fmt.Sprint(db.SigDataExists(dbTypes[0].G, &signature.SignatureData{Owner: dbOwners[1], Data: dbData(1)}))), nil)
				case "Exists":
					return scResult([]byte(fmt.Sprint(db.Exists(dbTypes[0].G, probe))), nil)
				}
				harnessf("sched: db op %q", op.Op)
				return nil
			}}
			return o
		}
	case "dbdecoded":
		// a database as it comes out of the decoder
		enc := append(refHashDB(0x21, 2+c.DB), refESLEncode([]RefList{{Type: wireX509, Size: uint32(16 + len(Pool()[0].CertDER)),
			Sigs: []RefSig{{Owner: [16]byte{1}, Data: Pool()[0].CertDER}, {Owner: [16]byte{2}, Data: Pool()[1].CertDER}}}})...)
		var o1 [16]byte
		for j := range o1 {
			o1[j] = 0xA0 + byte(j)
		}
		own := guidFromWire(o1[:])
		hit := refHashDBEntry(0x21, 1)
		return func() *scObject {
			got, err := signature.ReadSignatureDatabase(bytes.NewReader(enc))
			if err != nil {
				harnessf("sched: decode: %v", err)
			}
			db := &got
			probe := signature.NewSignatureList(dbTypes[0].G)
			probe.AppendBytes(own, hit)
			return &scObject{dumpRoot: db, do: func(op scOp) []byte {
				switch op.Op {
				case "Bytes":
					return scResult(db.Bytes(), nil)
				case "Marshal":
					b, skip := scDest(op.Dest)
					db.Marshal(b)
					return scOwnBufferAt(b, skip)
				case "BytesExists":
					return scResult([]byte(fmt.Sprint(db.BytesExists(dbTypes[0].G, own, hit))), nil)
				case "BytesExistsMiss":
					return scResult([]byte(fmt.Sprint(db.BytesExists(dbTypes[1].G, own, hit))), nil)
				case "BytesExistsPEM":
					return scResult([]byte(fmt.Sprint(db.BytesExists(dbTypes[1].G, guidFromWire([]byte{1, 0, 0, 0, 0, 0, 0, 0, 0, 0, 0, 0, 0, 0, 0, 0}), Pool()[0].CertPEM),
						db.BytesExists(dbTypes[1].G, guidFromWire([]byte{1, 0, 0, 0, 0, 0, 0, 0, 0, 0, 0, 0, 0, 0, 0, 0}), Pool()[0].CertDER))), nil)
				case "SigDataExists":
					return scResult([]byte(fmt.Sprint(db.SigDataExists(dbTypes[1].G, &signature.SignatureData{Owner: guidFromWire([]byte{2, 0, 0, 0, 0, 0, 0, 0, 0, 0, 0, 0, 0, 0, 0, 0}), Data: Pool()[1].CertDER}))), nil)
				case "Exists":
					return scResult([]byte(fmt.Sprint(db.Exists(dbTypes[0].G, probe))), nil)
				}
				harnessf("sched: dbdecoded op %q", op.Op)
				return nil
			}}
		}
	case "list":
		return func() *scObject {
			l := signature.NewSignatureList(dbTypes[0].G)
			for i := 0; i < 3+c.DB; i++ {
				d := dbData(i % 4)
				if i >= 4 {
					h := sha256.Sum256([]byte(fmt.Sprint("list entry ", i)))
					d = h[:]
				}
				if err := l.AppendBytes(dbOwners[i%3], d); err != nil && i < 4 {
					harnessf("sched: list setup: %v", err)
				}
			}
			sub := signature.NewSignatureList(dbTypes[0].G)
			sub.AppendBytes(dbOwners[0], dbData(0))
			sub.AppendBytes(dbOwners[1], dbData(1))
			// long queries: every entry of the list, and the same with one entry that is not enrolled somewhere in the middle
			long := signature.NewSignatureList(dbTypes[0].G)
			longMiss := signature.NewSignatureList(dbTypes[0].G)
			for k, sd := range l.Signatures {
				long.AppendBytes(sd.Owner, append([]byte(nil), sd.Data...))
				if k == len(l.Signatures)/3 {
					h := sha256.Sum256([]byte("not enrolled"))
					longMiss.AppendBytes(sd.Owner, h[:])
				} else {
					longMiss.AppendBytes(sd.Owner, append([]byte(nil), sd.Data...))
				}
			}
			return &scObject{dumpRoot: l, do: func(op scOp) []byte {
				switch op.Op {
				case "Bytes":
					return scResult(l.Bytes(), nil)
				case "Exists":
					ok, idx := l.Exists(&signature.SignatureData{Owner: dbOwners[1], Data: dbData(1)})
					return scResult([]byte(fmt.Sprint(ok, idx)), nil)
				case "ExistsMiss":
					ok, idx := l.Exists(&signature.SignatureData{Owner: dbOwners[2], Data: dbData(0)})
					return scResult([]byte(fmt.Sprint(ok, idx)), nil)
				case "ExistsInList":
					return scResult([]byte(fmt.Sprint(l.ExistsInList(sub))), nil)
				case "CmpHeader":
					return scResult([]byte(fmt.Sprint(l.CmpHeader(sub))), nil)
				case "ExistsInListLong":
					return scResult([]byte(fmt.Sprint(l.ExistsInList(long))), nil)
				case "ExistsInListLongMiss":
					return scResult([]byte(fmt.Sprint(l.ExistsInList(longMiss))), nil)
				}
				harnessf("sched: list op %q", op.Op)
				return nil
			}}
		}
	case "pkcs7", "authcode":
		at, err := time.Parse(time.RFC3339, c.Instant)
		if err != nil {
			harnessf("sched instant: %v", err)
		}
		pk := Pool()[c.Signers[0]%poolSize]
		other := Pool()[7]
		var blob, hashed []byte
		if pv := inBubble(x.T, at.UTC(), "", func() {
			var err error
			if c.Object == "pkcs7" {
				blob, err = pkcs7.SignPKCS7(pk.Key, pk.Cert, pkcs7.OIDData, []byte("content signed once, verified many times"))
			} else {
				img := c.Image.Bytes()
				hashed = refHashedBytes(img)
				blob, err = authenticode.SignAuthenticode(pk.Key, pk.Cert, bytes.NewReader(hashed), crypto.SHA256)
			}
			if err != nil {
				harnessf("sched: signing: %v", err)
			}
		}); pv != nil {
			panic(pv)
		}
		if c.DB > 0 {
			// the same content signed the way another tool signs it: extra authenticated attributes behind the usual three
			like, err := refCMSParse(blob)
			if err != nil {
				harnessf("sched: reference parse of the library's own SignedData: %v", err)
			}
			blob = refCMSForeign(like, []byte("content signed once, verified many times"), pk, at.UTC(), refForeignAttrs(c.DB%4))
		}
		if c.Object == "pkcs7" {
			return func() *scObject {
				in := append([]byte(nil), blob...)
				p7, err := pkcs7.ParsePKCS7(in)
				if err != nil {
					harnessf("sched: ParsePKCS7: %v", err)
				}
				return &scObject{dumpRoot: &scWithInput{p7, in}, do: func(op scOp) []byte {
					switch op.Op {
					case "Verify":
						ok, err := p7.Verify(pk.Cert)
						return scResult([]byte(fmt.Sprint(ok)), err)
					case "VerifyOther":
						ok, err := p7.Verify(other.Cert)
						return scResult([]byte(fmt.Sprint(ok)), err)
					case "HasCertificate":
						return scResult([]byte(fmt.Sprint(p7.HasCertificate(pk.Cert), p7.HasCertificate(other.Cert))), nil)
					}
					harnessf("sched: pkcs7 op %q", op.Op)
					return nil
				}}
			}
		}
		return func() *scObject {
			in := append([]byte(nil), blob...)
			ac, err := authenticode.ParseAuthenticode(in)
			if err != nil {
				harnessf("sched: ParseAuthenticode: %v", err)
			}
			rd := &SimReader{data: hashed, p: plane}
			return &scObject{dumpRoot: &scWithInput{ac, in}, do: func(op scOp) []byte {
				switch op.Op {
				case "Verify":
					ok, err := ac.Verify(pk.Cert, io.NewSectionReader(rd, 0, int64(len(hashed))))
					return scResult([]byte(fmt.Sprint(ok)), err)
				case "VerifyOther":
					ok, err := ac.Verify(other.Cert, io.NewSectionReader(rd, 0, int64(len(hashed))))
					return scResult([]byte(fmt.Sprint(ok)), err)
				}
				harnessf("sched: authcode op %q", op.Op)
				return nil
			}}
		}
	case "update":
		at, err := time.Parse(time.RFC3339, c.Instant)
		if err != nil {
			harnessf("sched instant: %v", err)
		}
		pk := Pool()[c.Signers[0]%poolSize]
		return func() *scObject {
			var desc *signature.EFIVariableAuthentication2
			var upd efivar.Marshallable
			var mine *mutVal // the caller's own payload object: it goes on living after the update was produced
			var parseBuf *bytes.Buffer
			var parseBacking []byte
			if pv := inBubble(x.T, at.UTC(), "", func() {
				var err error
				// payloads of several sizes: a hash list, the empty value that clears a variable, a few bytes
				payload := [][]byte{refHashDB(0x31, 3), nil, []byte("\x01\x02\x03\x04\x05"), refHashDB(0x32, 1)[:40], refHashDB(0x33, 1)}[c.DB%5]
				mine = &mutVal{b: append([]byte(nil), payload...)}
				desc, upd, err = signature.SignEFIVariable(efivar.Db, mine, pk.Key, pk.Cert)
				if err != nil {
					harnessf("sched: SignEFIVariable: %v", err)
				}
			}); pv != nil {
				panic(pv)
			}
			if c.DB%2 == 1 {
				// the descriptor as a caller gets it back from storage: parsed out of a buffer, and the caller goes on to use
				// that buffer for the next thing it reads
				var parsed signature.EFIVariableAuthentication2
				parseBuf = bytes.NewBuffer(append([]byte(nil), upd.Bytes()...))
				parseBacking = parseBuf.Bytes()
				if err := parsed.Unmarshal(parseBuf); err != nil {
					harnessf("sched: parse descriptor: %v", err)
				}
				desc = &parsed
			}
			type both struct {
				D *signature.EFIVariableAuthentication2
				U efivar.Marshallable
			}
			var o *scObject
			o = &scObject{dumpRoot: &both{desc, upd}, do: func(op scOp) []byte {
				switch op.Op {
				case "Marshal":
					b, skip := scDest(op.Dest)
					upd.Marshal(b)
					return scOwnBufferAt(b, skip)
				case "Bytes":
					return scResult(o.hold("update.Bytes()", upd.Bytes(), op.Scribble), nil)
				case "DescMarshal":
					b, skip := scDest(op.Dest)
					desc.Marshal(b)
					return scOwnBufferAt(b, skip)
				case "DescVerify":
					ok, err := desc.Verify(pk.Cert)
					return scResult([]byte(fmt.Sprint(ok)), err)
				case "DescZeroTimeMarshal":
					// a descriptor whose timestamp is all zero (hand-built, or decoded from a variable that has none): encoding it
					// writes the zeros, now and a second later
					dz := *desc
					dz.Time = util.EFITime{}
					var b bytes.Buffer
					dz.Marshal(&b)
					return scOwnBuffer(&b)
				case "CallerReusesParseBuffer":
					// not an operation on the descriptor: the caller reads the next variable into the buffer the descriptor
					// was once parsed from. The descriptor is a value of its own.
					o.hmu.Lock()
					if parseBuf != nil {
						for k := range parseBacking {
							parseBacking[k] = 0xEE
						}
						parseBuf.Reset()
						parseBuf.WriteString("the next variable the caller reads")
					}
					o.hmu.Unlock()
					return scResult(nil, nil)
				case "CallerEditsPayload":
					// not an operation on the update: the caller prepares its next update in the object it once passed as
					// payload. The update that was handed out is a value of its own and must not notice.
					o.hmu.Lock()
					mine.b = append(mine.b, 0x42)
					for k := range mine.b {
						mine.b[k] ^= 0x11
					}
					o.hmu.Unlock()
					return scResult(nil, nil)
				}
				harnessf("sched: update op %q", op.Op)
				return nil
			}}
			return o
		}
	}
	harnessf("sched: object %q", c.Object)
	return nil
}

// scOwnBuffer takes the result out of a buffer the caller handed to Marshal
// and then reuses that buffer, as its owner may: whatever Marshal wrote must
// have been a copy.
// scDest is the buffer a caller hands to Marshal: a zero buffer, one with spare capacity (pre-sized, or Reset and used
// again), or one that already holds the caller's own bytes in front. What Marshal wrote is what stands behind the prefix.
func scDest(kind int) (*bytes.Buffer, int) {
	switch kind % 4 {
	case 1:
		return bytes.NewBuffer(make([]byte, 0, 8192)), 0
	case 2:
		b := bytes.NewBuffer(make([]byte, 0, 64))
		b.WriteString("the caller's own header:")
		return b, b.Len()
	case 3:
		b := &bytes.Buffer{}
		b.Write(bytes.Repeat([]byte{0x77}, 5000))
		b.Reset()
		return b, 0
	}
	return &bytes.Buffer{}, 0
}

func scOwnBufferAt(b *bytes.Buffer, skip int) []byte {
	if skip > b.Len() {
		skip = b.Len()
	}
	if skip > 0 && !bytes.Equal(b.Bytes()[:skip], []byte("the caller's own header:")[:skip]) {
		return scResult(append([]byte("PREFIX CHANGED:"), b.Bytes()...), nil)
	}
	rest := bytes.NewBuffer(append([]byte(nil), b.Bytes()[skip:]...))
	full := b.Bytes()
	for i := range full {
		full[i] = 0xEE
	}
	return scOwnBuffer(rest)
}

func scOwnBuffer(b *bytes.Buffer) []byte {
	out := scResult(append([]byte(nil), b.Bytes()...), nil)
	full := b.Bytes()
	for i := range full {
		full[i] = 0xEE
	}
	b.Reset()
	b.Write([]byte{0xEE, 0xEE, 0xEE, 0xEE})
	return out
}

func guardResult(f func() []byte) (out []byte) {
	defer func() {
		if r := recover(); r != nil {
			if he, ok := r.(*HarnessError); ok {
				panic(he)
			}
			out = []byte(fmt.Sprintf("PANIC:%v", r))
		}
	}()
	return f()
}

func (e *schedEngine) Exec(tr *Trace, x *X) {
	var c scCfg
	if err := json.Unmarshal(tr.Cfg, &c); err != nil {
		harnessf("sched cfg: %v", err)
	}
	ops, err := unrawList[scOp](tr.Ops)
	if err != nil {
		harnessf("sched ops: %v", err)
	}
	sw, err := unrawList[Switch](tr.Schedule)
	if err != nil {
		harnessf("sched schedule: %v", err)
	}
	if c.Clients < 1 {
		c.Clients = 1
	}
	plane := NewPlane(nil)
	if c.Mode == "free" {
		plane = nil // free-running clients: the medium must be stateless (no call counter to race on)
	}
	mk := e.build(c, x, plane)
	// sequential baseline on a twin object. For free-running clients it is computed AFTER the concurrent
	// phase, so that the very first calls of the process (lazy package-level initialisation) are the concurrent ones.
	base := map[string][]byte{}
	var kinds []scOp // one representative per operation kind, in order of first appearance
	{
		seen := map[string]bool{}
		for _, op := range ops {
			k := fmt.Sprint(op.Op, op.Key)
			if !seen[k] {
				seen[k] = true
				kinds = append(kinds, op)
			}
		}
	}
	// every operation kind is first called on a FRESH object of its own: that is what "the same result every time" refers to
	baseline := func() {
		for _, op := range kinds {
			fresh := mk()
			base[fmt.Sprint(op.Op, op.Key)] = guardResult(func() []byte { return fresh.do(op) })
		}
	}
	if c.Mode != "free" {
		baseline()
	}
	obj := mk()
	x.Logf("object=%s mode=%s clients=%d ops=%d switches=%d image=%s signers=%v", c.Object, c.Mode, c.Clients, len(ops), len(sw), c.Image.String0(), c.Signers)
	// bystanders: other objects of the same type that are alive while the operations run on obj and that nobody touches:
	// a twin of obj and, for images, a different image whose size is not a multiple of 8. They are used once before
	// (every kind), and after the run they must answer as before and be unchanged.
	type bystander struct {
		o    *scObject
		what string
		res  map[string][]byte
		dump string
	}
	var bys []*bystander
	addBy := func(o *scObject, what string, ks []scOp) {
		b := &bystander{o: o, what: what, res: map[string][]byte{}}
		for _, op := range ks {
			op := op
			b.res[op.Op] = guardResult(func() []byte { return o.do(op) })
		}
		b.dump = deepDump(o.dumpRoot)
		bys = append(bys, b)
	}
	if c.Mode != "free" && !c.Cold { // (free-running and cold runs keep the first calls of the process for the clients)
		addBy(mk(), "a twin of the object", kinds)
		if c.Object == "image" {
			sp := genPESpec(NewR(tr.Seed, "sched.bystander", tr.Run))
			if sp.Trailing%8 == 0 {
				sp.Trailing += 3
			}
			ob, err := authenticode.Parse(bytes.NewReader(buildPE(sp)))
			if err != nil {
				harnessf("sched: bystander image: %v", err)
			}
			bo := &scObject{dumpRoot: ob}
			bo.do = func(op scOp) []byte {
				switch op.Op {
				case "Bytes":
					return scResult(ob.Bytes(), nil)
				case "Hash":
					return scResult(ob.Hash(crypto.SHA256), nil)
				}
				b, err := io.ReadAll(ob.Open())
				return scResult(b, err)
			}
			addBy(bo, "a different image parsed beside it", []scOp{{Op: "Bytes"}, {Op: "Hash"}, {Op: "Open"}})
		}
	}
	bystandersIntact := func() bool {
		for _, b := range bys {
			for _, k := range sortedKeys(b.res) {
				k := k
				r := guardResult(func() []byte { return b.o.do(scOp{Op: k}) })
				if !bytes.Equal(r, b.res[k]) {
					x.Fail("sched.other_object_untouched", len(ops)-1, c.Object+"."+k, "%s, which no operation of this run was called on, now answers %s to %s, before the run %s", b.what, shortHex(r), k, shortHex(b.res[k]))
					x.Viol.Sig = map[string]string{"mode": c.Mode, "object": c.Object}
					return false
				}
			}
			if d := deepDump(b.o.dumpRoot); d != b.dump {
				x.Fail("sched.other_object_untouched", len(ops)-1, c.Object, "%s, which no operation of this run was called on, changed: %s", b.what, dumpDiff(b.dump, d))
				x.Viol.Sig = map[string]string{"mode": c.Mode, "object": c.Object}
				return false
			}
		}
		return true
	}
	// warm-up: each kind once on the object under test. Whatever an implementation legitimately fills in on
	// first use (a cache) is filled in now; from here on the object must not change any more.
	warm := func() bool {
		for _, op := range kinds {
			r := guardResult(func() []byte { return obj.do(op) })
			if want, ok := base[fmt.Sprint(op.Op, op.Key)]; ok && !bytes.Equal(r, want) {
				x.Fail("sched.result_repeatable", -1, c.Object+"."+op.Op, "%s on an object that other read-only operations were called on before returned %s, on a fresh object %s", op.Op, shortHex(r), shortHex(want))
				x.Viol.Sig = map[string]string{"mode": c.Mode, "object": c.Object, "op": op.Op}
				return false
			}
		}
		return true
	}
	if c.Mode != "free" && !c.Cold {
		if !warm() {
			return
		}
	}
	snap0 := deepDump(obj.dumpRoot)
	kept := func(i int) bool {
		if msg := obj.heldIntact(); msg != "" {
			x.Fail("sched.result_stays_valid", i, c.Object, "%s", msg)
			x.Viol.Sig = map[string]string{"mode": c.Mode, "object": c.Object}
			return false
		}
		return true
	}
	results := make([][]byte, len(ops))
	judge := func(i int) bool {
		op := ops[i]
		want := base[fmt.Sprint(op.Op, op.Key)]
		if !bytes.Equal(results[i], want) {
			kind := c.Object + "." + op.Op
			x.Fail("sched.result_repeatable", i, kind, "call %d (%s, client %d, mode %s) returned %s, the first sequential call returned %s", i, op.Op, op.C, c.Mode, shortHex(results[i]), shortHex(want))
			x.Viol.Sig = map[string]string{"mode": c.Mode, "object": c.Object, "op": op.Op}
			return false
		}
		return true
	}
	switch c.Mode {
	case "seq":
		seqBody := func() {
			reps := map[string]int{}
			faulted := false
			if c.FaultAt > 0 && plane != nil {
				plane.Arm([]Fault{{Pos: c.FaultAt - 1, Kind: "err"}})
			}
			for i, op := range ops {
				x.Steps++
				fired0 := 0
				if plane != nil {
					fired0 = len(plane.Fired)
				}
				results[i] = guardResult(func() []byte { return obj.do(op) })
				x.Logf("op %d %s -> %s", i, op.Op, shortHex(results[i]))
				if c.StepS > 0 {
					time.Sleep(time.Duration(c.StepS) * time.Second) // (inside the bubble: simulated time)
				}
				if plane != nil && len(plane.Fired) > fired0 {
					// the medium failed once inside this call: whatever it answered, it is the calls around it that are judged.
					// (An implementation may remember the failure somewhere inside the object — the tree's own error latch of
					// Parse does — so from here on the results are what counts, not the object's internals.)
					faulted = true
					x.Probe("transient_read_fault_inside_a_call")
					if bytes.HasPrefix(results[i], []byte("PANIC:")) {
						x.Fail("sched.result_repeatable", i, c.Object+"."+op.Op, "the call panicked when the medium failed once: %s", shortHex(results[i]))
						return
					}
				} else if !judge(i) {
					return
				}
				if d := deepDump(obj.dumpRoot); d != snap0 && !faulted {
					x.Fail("sched.object_unmodified", i, c.Object+"."+op.Op, "the object changed after its first use: %s", dumpDiff(snap0, d))
					x.Viol.Sig = map[string]string{"mode": c.Mode, "object": c.Object, "op": op.Op}
					return
				}
				if !kept(i) {
					return
				}
				reps[op.Op]++
				if reps[op.Op] >= 2 {
					x.Nontriv = true
				}
			}
			if plane != nil {
				plane.Disarm()
			}
			if !bystandersIntact() {
				return
			}
		}
		if c.StepS > 0 {
			// the simulated clock moves between the calls
			at, err := time.Parse(time.RFC3339, c.Instant)
			if err != nil {
				harnessf("sched instant: %v", err)
			}
			x.Probe("clock_moves_between_calls")
			if pv := inBubble(x.T, at.UTC(), "", seqBody); pv != nil {
				panic(pv)
			}
		} else {
			seqBody()
		}
	case "inter":
		s := NewSched(x, c.Clients, sw)
		s.Monitor = true
		plane.yield = s.Yield
		setYieldHook(s.Yield)
		setBlockHook(s.Blocked)
		defer setYieldHook(nil)
		defer setBlockHook(nil)
		bodies := make([]func(), c.Clients)
		for cl := 0; cl < c.Clients; cl++ {
			cl := cl
			bodies[cl] = func() {
				for i, op := range ops {
					if op.C%c.Clients != cl {
						continue
					}
					results[i] = guardResult(func() []byte { return obj.do(op) })
				}
			}
		}
		s.Run(bodies)
		plane.yield = nil
		setYieldHook(nil)
		setBlockHook(nil)
		if s.Nondet {
			x.Nondet = true
		}
		if s.Deadlock != "" {
			x.Fail("sched.deadlock", len(ops)-1, c.Object, "concurrent read-only operations do not finish: %s", s.Deadlock)
			x.Viol.Sig = map[string]string{"mode": c.Mode, "object": c.Object}
			return
		}
		x.Steps += s.nyield
		x.SchedKey = s.key()
		x.Probes["yields"] += s.nyield
		x.Probes["context_switches"] += len(s.Switches)
		x.Logf("yields=%d switches=%d", s.nyield, len(s.Switches))
		for i := range ops {
			x.Logf("op %d c%d %s -> %s", i, ops[i].C%c.Clients, ops[i].Op, shortHex(results[i]))
		}
		for i := range ops {
			if !judge(i) {
				return
			}
		}
		if c.Cold {
			// the clients' calls were the first ones on this object: it is in its used state now, and one more round must leave it as it is
			x.Probe("cold_object")
			if !warm() {
				return
			}
			snap0 = deepDump(obj.dumpRoot)
			if !warm() {
				return
			}
		}
		if d := deepDump(obj.dumpRoot); d != snap0 {
			x.Fail("sched.object_unmodified", len(ops)-1, c.Object, "the object changed after its first use: %s", dumpDiff(snap0, d))
			x.Viol.Sig = map[string]string{"mode": c.Mode, "object": c.Object}
			return
		}
		if !kept(len(ops) - 1) {
			return
		}
		if !bystandersIntact() {
			return
		}
		x.Nontriv = c.Clients >= 2 && len(s.Switches) >= 1
	case "free":
		var wg sync.WaitGroup
		start := make(chan struct{})
		for cl := 0; cl < c.Clients; cl++ {
			cl := cl
			wg.Add(1)
			go func() {
				defer wg.Done()
				<-start
				for i, op := range ops {
					if op.C%c.Clients != cl {
						continue
					}
					results[i] = guardResult(func() []byte { return obj.do(op) })
				}
			}()
		}
		close(start)
		wg.Wait()
		baseline()
		x.Steps += len(ops)
		for i := range ops {
			x.Logf("op %d c%d %s -> %s", i, ops[i].C%c.Clients, ops[i].Op, shortHex(results[i]))
		}
		for i := range ops {
			if !judge(i) {
				return
			}
		}
		// after the concurrent phase the object is in its used state: one more sequential round must leave it as it is
		if !warm() {
			return
		}
		snapA := deepDump(obj.dumpRoot)
		if !warm() {
			return
		}
		if d := deepDump(obj.dumpRoot); d != snapA {
			x.Fail("sched.object_unmodified", len(ops)-1, c.Object, "the object changed after its first use: %s", dumpDiff(snapA, d))
			x.Viol.Sig = map[string]string{"mode": c.Mode, "object": c.Object}
			return
		}
		if !kept(len(ops) - 1) {
			return
		}
		if !bystandersIntact() {
			return
		}
		x.Nontriv = c.Clients >= 2
	default:
		harnessf("sched: mode %q", c.Mode)
	}
}

func (s ImgSpec) String0() string {
	if s.Fixture == "" && s.Gen == nil {
		return "-"
	}
	return s.String()
}

// dumpDiff shows the first place where two dumps differ.
func dumpDiff(a, b string) string {
	i := 0
	for i < len(a) && i < len(b) && a[i] == b[i] {
		i++
	}
	lo := max(0, i-80)
	return fmt.Sprintf("…%s ⟨was⟩ %s ⟨now⟩ %s", a[lo:i], a[i:min(len(a), i+60)], b[i:min(len(b), i+60)])
}

func sortedKeys(m map[string][]byte) []string {
	var ks []string
	for k := range m {
		ks = append(ks, k)
	}
	sort.Strings(ks)
	return ks
}
