//go:build !instr

package sim

// setYieldHook is a no-op in builds against the unmodified tree: the only
// yield points are the seams (SimReader.ReadAt).
func setYieldHook(f func(string)) {}

func setBlockHook(f func(string)) {}

const instrumentedBuild = false
