package sim

import (
	"bytes"
	"encoding/binary"
	"encoding/json"
	"errors"
	"fmt"
	"os"
	"path"
	"strings"
	"sync"
	"time"
	"unicode/utf16"

	"github.com/foxboron/go-uefi/efi"
	"github.com/foxboron/go-uefi/efi/attributes"
	efifs "github.com/foxboron/go-uefi/efi/fs"
	"github.com/foxboron/go-uefi/efi/signature"
	"github.com/foxboron/go-uefi/efi/util"
	"github.com/foxboron/go-uefi/efivar"
	"github.com/foxboron/go-uefi/efivarfs"
	"github.com/foxboron/go-uefi/efivarfs/fswrapper"
	"github.com/spf13/afero"
)

// fstrace — property C11. The simulated efivarfs records the sequence of
// operations the library issues; the oracle reads that trace and the end state
// of a small firmware model driven by it.

type ftCfg struct {
	Dir    string `json:"dir"`
	Chunks []int  `json:"chunks,omitempty"` // legal short-read plan for the simulated device
	Key    int    `json:"key,omitempty"`
	// ShortWrite > 0: the device accepts only that many bytes of a write and
	// reports the short count without an error.
	ShortWrite int `json:"short_write,omitempty"`
	// NoDir: the efivars directory does not exist (a machine without a variable store)
	NoDir bool `json:"no_dir,omitempty"`
	// Clients > 1: the operations are issued by that many caller goroutines
	// (each on its own variables) under the seeded scheduler; every
	// filesystem call is a yield point.
	Clients int `json:"clients,omitempty"`
	// SameVar: all callers READ one and the same variable (it is stored before they start; nobody writes)
	SameVar bool `json:"same_variable_readers,omitempty"`
}

type ftOp struct {
	C   int     `json:"c,omitempty"` // issuing client (interleaved runs)
	Op  string  `json:"op"`          // write | read
	API string  `json:"api"`         // obj.WriteVar, legacy.WriteEfivarsWithGuid, obj.GetVar, typed.Getdb, …
	Var VarSpec `json:"var"`
	// write: the value
	Val ValSpec `json:"val"`
	// read: what the device holds beforehand (nil = leave whatever earlier ops left)
	Stored *StoredSpec `json:"stored,omitempty"`
	// read: the harness's decoder reports this failure
	SinkFails bool `json:"sink_fails,omitempty"`
	// write (obj.WriteVar): the value is a signed update produced by SignEFIVariable, and the SAME object is handed to
	// every write of this run that names the same value
	Blob bool `json:"blob,omitempty"`
}

// ValSpec describes a value compactly.
type ValSpec struct {
	Kind string `json:"kind"` // raw | hashdb | certdb | bool | str | bootorder | bootentry
	N    int    `json:"n,omitempty"`
	Tag  int    `json:"tag,omitempty"`
}

func (v ValSpec) Bytes() []byte {
	switch v.Kind {
	case "", "raw":
		r := &R{s: uint64(v.Tag)*0x9e3779b97f4a7c15 + 1}
		return r.Bytes(v.N)
	case "hashdb":
		return refHashDB(byte(v.Tag), v.N)
	case "certdb":
		pk := Pool()[v.Tag%poolSize]
		var owner [16]byte
		owner[3] = byte(v.Tag)
		return refESLEncode([]RefList{{Type: wireX509, Size: uint32(16 + len(pk.CertDER)), Sigs: []RefSig{{Owner: owner, Data: pk.CertDER}}}})
	case "multidb":
		// several lists with the same type and signature size, one hash each, then a certificate list
		var ls []RefList
		for i := 0; i < v.N; i++ {
			var o [16]byte
			o[0], o[5] = byte(v.Tag), byte(i)
			ls = append(ls, RefList{Type: wireSHA256, Size: 48, Sigs: []RefSig{{Owner: o, Data: refHashDBEntry(byte(v.Tag), i)}}})
		}
		pk := Pool()[v.Tag%poolSize]
		for i := 0; i < 2; i++ {
			var o [16]byte
			o[1] = byte(i + 1)
			c := Pool()[(v.Tag+i)%2]
			ls = append(ls, RefList{Type: wireX509, Size: uint32(16 + len(c.CertDER)), Sigs: []RefSig{{Owner: o, Data: c.CertDER}}})
		}
		_ = pk
		return refESLEncode(ls)
	case "tailemptydb":
		// N hashes in one list, followed by a list that holds no signature at all: exactly one 28-byte list header
		// (what removing the last certificate of a list leaves behind). N = 0: nothing but that header.
		var ls []RefList
		if v.N > 0 {
			l := RefList{Type: wireSHA256, Size: 48}
			for i := 0; i < v.N; i++ {
				var o [16]byte
				o[2] = byte(v.Tag)
				l.Sigs = append(l.Sigs, RefSig{Owner: o, Data: refHashDBEntry(byte(v.Tag), i)})
			}
			ls = append(ls, l)
		}
		ls = append(ls, RefList{Type: wireX509, Size: 0})
		return refESLEncode(ls)
	case "randdb":
		return refRandDB(uint64(v.Tag))
	case "cutupdate":
		// the first N bytes of an authenticated update (timestamp, WIN_CERTIFICATE_UEFI_GUID header, part of the PKCS#7):
		// a value that begins like an authentication descriptor and is none. The descriptor is a fixed reference one
		// (sbvarsign's, from the repository's fixtures), so the bytes do not depend on a clock.
		raw := fixture("repo", "auth", "db.auth")
		if v.N < len(raw) {
			raw = raw[:v.N]
		}
		out := append([]byte(nil), raw...)
		if len(out) > 0 {
			out[0] ^= byte(v.Tag) // year low byte: distinguishable values
		}
		return out
	case "bool":
		return []byte{byte(v.N)}
	case "str":
		s := fmt.Sprintf("entry-%d.efi", v.Tag)
		var b []byte
		for _, u := range utf16.Encode([]rune(s)) {
			b = binary.LittleEndian.AppendUint16(b, u)
		}
		return append(b, 0, 0)
	case "stalesizedb":
		// a hash database as a caller's hand-assembled object encodes it: the first list's SignatureListSize field is out of step
		// with its content (4 too many). The library's encoders write the size fields of an object as they are.
		w := v
		w.Kind = "hashdb"
		b := append([]byte(nil), w.Bytes()...)
		if len(b) >= 20 {
			binary.LittleEndian.PutUint32(b[16:], binary.LittleEndian.Uint32(b[16:])+4)
		}
		return b
	case "maskfirst":
		out := le32(uint32(v.Tag))
		for len(out) < v.N {
			out = append(out, byte(len(out)*3+1))
		}
		return out
	case "str2":
		// a string variable with more bytes behind its terminator (a reused buffer, a second string): the value is the first string
		w := v
		w.Kind = "str"
		b := w.Bytes()
		for _, u := range utf16.Encode([]rune(fmt.Sprintf("stale-%d", v.Tag))) {
			b = binary.LittleEndian.AppendUint16(b, u)
		}
		if v.Tag%2 == 0 {
			b = append(b, 0, 0)
		}
		return b
	case "bootorder_odd":
		// a BootOrder value with a stray byte behind the last entry (firmware has been seen to do it)
		w := v
		w.Kind = "bootorder"
		return append(w.Bytes(), byte(v.Tag))
	case "bootorder":
		var b []byte
		for i := 0; i < v.N; i++ {
			b = binary.LittleEndian.AppendUint16(b, uint16(v.Tag+i*0x101))
		}
		return b
	case "bootentry":
		raw := append([]byte(nil), fixture("repo", "vars", "Boot0001-8be4df61-93ca-11d2-aa0d-00e098032b8c")[4:]...)
		if v.Tag != 0 && len(raw) > 8 {
			raw[6] = byte('A' + v.Tag%26) // first character of the description: entries are distinguishable
		}
		return raw
	}
	harnessf("unknown value kind %q", v.Kind)
	return nil
}

type StoredSpec struct {
	Absent bool    `json:"absent,omitempty"`
	Short  int     `json:"short,omitempty"` // file holds only this many bytes (0..3) — together with ShortSet
	IsShrt bool    `json:"is_short,omitempty"`
	Mask   uint32  `json:"mask"`
	Val    ValSpec `json:"val"`
	// KeepTime: the foreign store leaves the file's modification time where it was (coarse timestamps, two stores within
	// one tick, a wall clock stepped back between them): what a handle remembers about the file's times says nothing about
	// its content
	KeepTime bool `json:"keep_time,omitempty"`
}

type fstraceEngine struct {
	mu   sync.Mutex
	grid []ftCase
}

type ftCase struct {
	cfg ftCfg
	ops []ftOp
	sw  []Switch
}

func init() { register(&fstraceEngine{}) }

func (e *fstraceEngine) Name() string     { return "fstrace" }
func (e *fstraceEngine) Property() string { return "C11" }

var ftDirs = []string{"/sys/firmware/efi/efivars", "simrel/efivars", "/simefivars/", "/sim/a/b/c/d/efivars",
	"/srv/images/efi%20vars", "/mnt/100%/run-%d/%s", "/var/lib/efi vars (copy)/v", "/sim/Ünïcode/efivars"}

var ftWriteAPIs = []string{"obj.WriteVar", "legacy.WriteEfivarsWithGuid"}
var ftReadAPIs = []string{"obj.GetVar", "obj.GetVarWithAttributes", "legacy.ReadEfivarsWithGuid"}

// storedMasks returns the stored-mask relations for a required mask.
func storedMasks(req uint32) []uint32 {
	out := []uint32{req, req | 0x8, req | 0x27, 0}
	for b := uint32(1); b <= 0x80; b <<= 1 { // required minus one bit
		if req&b != 0 {
			out = append(out, req&^b)
			out = append(out, (req&^b)|0x08) // …but with an unrelated extra bit
		}
	}
	out = append(out, ^req&0x7f) // disjoint
	return out
}

func (e *fstraceEngine) gridCases() []ftCase {
	e.mu.Lock()
	defer e.mu.Unlock()
	if e.grid != nil {
		return e.grid
	}
	var out []ftCase
	vals := []ValSpec{{Kind: "hashdb", N: 2, Tag: 1}, {Kind: "raw", N: 0}, {Kind: "raw", N: 1, Tag: 2}, {Kind: "raw", N: 5, Tag: 3}}
	for di, dir := range ftDirs {
		for _, p := range predefinedVars() {
			vs := VarSpec{Sym: p.Sym}
			req := uint32(p.V.Attributes)
			// writes: both APIs, with and without APPEND_WRITE
			for _, api := range ftWriteAPIs {
				for vi, val := range vals {
					if di > 0 && vi > 0 {
						continue
					}
					out = append(out, ftCase{cfg: ftCfg{Dir: dir}, ops: []ftOp{{Op: "write", API: api, Var: vs, Val: val}}})
				}
				av := VarSpec{Sym: p.Sym, Attrs: req | 0x40, AttrsSet: true}
				out = append(out, ftCase{cfg: ftCfg{Dir: dir}, ops: []ftOp{{Op: "write", API: api, Var: av, Val: vals[0]}}})
			}
			// reads: every stored-mask relation, present / absent / short
			for _, api := range ftReadAPIs {
				for _, m := range storedMasks(req) {
					if di > 0 && m != req && m != 0 {
						continue
					}
					out = append(out, ftCase{cfg: ftCfg{Dir: dir}, ops: []ftOp{{Op: "read", API: api, Var: vs, Stored: &StoredSpec{Mask: m, Val: vals[0]}}}})
				}
				if di == 0 {
					out = append(out, ftCase{cfg: ftCfg{Dir: dir}, ops: []ftOp{{Op: "read", API: api, Var: vs, Stored: &StoredSpec{Absent: true}}}})
					for n := 0; n <= 3; n++ {
						out = append(out, ftCase{cfg: ftCfg{Dir: dir}, ops: []ftOp{{Op: "read", API: api, Var: vs, Stored: &StoredSpec{IsShrt: true, Short: n, Mask: req}}}})
					}
					out = append(out, ftCase{cfg: ftCfg{Dir: dir}, ops: []ftOp{{Op: "read", API: api, Var: vs, Stored: &StoredSpec{Mask: req, Val: ValSpec{Kind: "raw", N: 0}}}}})
					out = append(out, ftCase{cfg: ftCfg{Dir: dir}, ops: []ftOp{{Op: "read", API: api, Var: vs, SinkFails: true, Stored: &StoredSpec{Mask: req, Val: vals[0]}}}})
				}
			}
		}
		// name-resolving legacy entry points and typed accessors
		// the name-resolving legacy entry points know two namespaces: the image security
		// database GUID for exactly db, dbx, dbt, dbr and the global GUID for everything else
		for _, p := range predefinedVars() {
			if refLegacyGUID(p.V.Name) != *p.V.GUID {
				continue // a vendor variable: not addressable by name through the legacy API
			}
			vs := VarSpec{Sym: p.Sym}
			out = append(out, ftCase{cfg: ftCfg{Dir: dir}, ops: []ftOp{{Op: "write", API: "legacy.WriteEfivars", Var: vs, Val: vals[0]}}})
			out = append(out, ftCase{cfg: ftCfg{Dir: dir}, ops: []ftOp{{Op: "read", API: "legacy.ReadEfivars", Var: vs, Stored: &StoredSpec{Mask: uint32(p.V.Attributes), Val: vals[0]}}}})
		}
		for _, n := range []string{"dbt", "dbr", "dbtDefault", "dbrDefault", "dbxx", "d", "db2", "Db", "DB", "PKx", "KEKDefault2", "x", "Boot0001"} {
			g := refLegacyGUID(n)
			vs := VarSpec{Name: n, GUID: fmt.Sprintf("%x", refGUIDWire(g)), Attrs: 0x7}
			out = append(out, ftCase{cfg: ftCfg{Dir: dir}, ops: []ftOp{{Op: "write", API: "legacy.WriteEfivars", Var: vs, Val: vals[0]}}})
			out = append(out, ftCase{cfg: ftCfg{Dir: dir}, ops: []ftOp{{Op: "read", API: "legacy.ReadEfivars", Var: vs, Stored: &StoredSpec{Mask: 0x7, Val: vals[0]}}}})
		}
		for _, n := range []string{"PK", "KEK", "Db", "Dbx"} {
			out = append(out, ftCase{cfg: ftCfg{Dir: dir}, ops: []ftOp{{Op: "write", API: "efi.WriteEFIVariable", Var: VarSpec{Sym: n}, Val: vals[0]}}})
			out = append(out, ftCase{cfg: ftCfg{Dir: dir, Key: di}, ops: []ftOp{{Op: "write", API: "obj.WriteSignedUpdate", Var: VarSpec{Sym: n}, Val: vals[0]}}})
			out = append(out, ftCase{cfg: ftCfg{Dir: dir, Key: di}, ops: []ftOp{{Op: "write", API: "obj.WriteSignedUpdate", Var: VarSpec{Sym: n, Attrs: uint32(predefinedVar(n).Attributes) | 0x40, AttrsSet: true}, Val: vals[0]}}})
		}
		// two different boot options one after the other (in both orders)
		for _, pair := range [][2]string{{"Boot0001", "Boot0000"}, {"Boot0000", "Boot0001"}, {"Boot0010", "Boot0001"}} {
			var ops []ftOp
			for k, n := range pair {
				ops = append(ops, ftOp{Op: "read", API: "typed.GetBootEntry", Var: VarSpec{Sym: "BootEntry", Name: n},
					Stored: &StoredSpec{Mask: 0x7, Val: ValSpec{Kind: "bootentry", Tag: k + len(n) + int(n[7]-'0')}}})
			}
			out = append(out, ftCase{cfg: ftCfg{Dir: dir}, ops: ops})
		}
		// a machine without a variable store
		for _, api := range []string{"obj.WriteVar", "legacy.WriteEfivarsWithGuid", "obj.WriteSignedUpdate"} {
			out = append(out, ftCase{cfg: ftCfg{Dir: dir, NoDir: true}, ops: []ftOp{{Op: "write", API: api, Var: VarSpec{Sym: "Db"}, Val: vals[0]}}})
		}
		out = append(out, ftCase{cfg: ftCfg{Dir: dir, NoDir: true}, ops: []ftOp{{Op: "read", API: "obj.GetVar", Var: VarSpec{Sym: "Db"}}}})
		for _, g := range ftEfiGetters {
			req := uint32(predefinedVar(g.sym).Attributes)
			for _, m := range storedMasks(req) {
				if di > 0 && m != req {
					continue
				}
				out = append(out, ftCase{cfg: ftCfg{Dir: dir}, ops: []ftOp{{Op: "read", API: g.api, Var: VarSpec{Sym: g.sym}, Stored: &StoredSpec{Mask: m, Val: ValSpec{Kind: "hashdb", N: 2, Tag: 6}}}}})
			}
		}
		for _, acc := range ftTyped {
			req := uint32(acc.v().Attributes)
			for _, m := range storedMasks(req) {
				if di > 0 && m != req {
					continue
				}
				out = append(out, ftCase{cfg: ftCfg{Dir: dir}, ops: []ftOp{{Op: "read", API: "typed." + acc.name, Var: acc.spec, Stored: &StoredSpec{Mask: m, Val: acc.val}}}})
			}
			out = append(out, ftCase{cfg: ftCfg{Dir: dir}, ops: []ftOp{{Op: "read", API: "typed." + acc.name, Var: acc.spec, Stored: &StoredSpec{Absent: true}}}})
			out = append(out, ftCase{cfg: ftCfg{Dir: dir}, ops: []ftOp{{Op: "read", API: "typed." + acc.name, Var: acc.spec, Stored: &StoredSpec{IsShrt: true, Short: 2, Mask: req}}}})
		}
	}
	e.grid = out
	return out
}

// refLegacyGUID: the namespace the name-resolving legacy functions assign to a
// variable name (UEFI 2.8 section 32.6.1: db, dbx, dbt, dbr live under
// EFI_IMAGE_SECURITY_DATABASE_GUID; the globally defined variables under
// EFI_GLOBAL_VARIABLE).
func refLegacyGUID(name string) util.EFIGUID {
	switch name {
	case "db", "dbx", "dbt", "dbr":
		return util.EFIGUID{Data1: 0xd719b2cb, Data2: 0x3d3a, Data3: 0x4596, Data4: [8]byte{0xa3, 0xbc, 0xda, 0xd0, 0x0e, 0x67, 0x65, 0x6f}}
	}
	return util.EFIGUID{Data1: 0x8be4df61, Data2: 0x93ca, Data3: 0x11d2, Data4: [8]byte{0xaa, 0x0d, 0x00, 0xe0, 0x98, 0x03, 0x2b, 0x8c}}
}

type ftAccessor struct {
	name string
	spec VarSpec
	val  ValSpec
}

func (a ftAccessor) v() efivar.Efivar { return a.spec.Var() }

var ftTyped = []ftAccessor{
	{"GetPK", VarSpec{Sym: "PK"}, ValSpec{Kind: "certdb", Tag: 1}},
	{"GetKEK", VarSpec{Sym: "KEK"}, ValSpec{Kind: "certdb", Tag: 2}},
	{"Getdb", VarSpec{Sym: "Db"}, ValSpec{Kind: "hashdb", N: 3, Tag: 4}},
	{"Getdbx", VarSpec{Sym: "Dbx"}, ValSpec{Kind: "hashdb", N: 1, Tag: 5}},
	{"GetSetupMode", VarSpec{Sym: "SetupMode"}, ValSpec{Kind: "bool", N: 1}},
	{"GetSecureBoot", VarSpec{Sym: "SecureBoot"}, ValSpec{Kind: "bool", N: 0}},
	{"GetBootOrder", VarSpec{Sym: "BootOrder"}, ValSpec{Kind: "bootorder", N: 4, Tag: 1}},
	{"GetBootEntry", VarSpec{Sym: "BootEntry", Name: "Boot0001"}, ValSpec{Kind: "bootentry"}},
	{"GetLoaderEntrySelected", VarSpec{Sym: "LoaderEntrySelected"}, ValSpec{Kind: "str", Tag: 7}},
}

var ftEfiGetters = []struct{ api, sym string }{{"efi.GetPK", "PK"}, {"efi.GetKEK", "KEK"}, {"efi.Getdb", "Db"}, {"efi.Getdbx", "Dbx"}}

func ftRandomCount(tier string) int {
	if tier == "thorough" {
		return 6000000
	}
	return 60000
}

func (e *fstraceEngine) Plan(seed uint64, tier string) int {
	return len(e.gridCases()) + ftRandomCount(tier)
}

const nameAlphabet = "ABCDEFGHIJKLMNOPQRSTUVWXYZabcdefghijklmnopqrstuvwxyz0123456789_-."

func genVarSpec(r *R) VarSpec {
	if r.Chance(1, 4) {
		p := Pick(r, predefinedVars())
		return VarSpec{Sym: p.Sym, Rebuilt: r.Chance(1, 4)}
	}
	n := Pick(r, []int{1, 2, 3, 8, 16, 33, 64})
	if r.Chance(1, 2) {
		n = r.Range(1, 64)
	}
	name := make([]byte, n)
	for i := range name {
		name[i] = nameAlphabet[r.Intn(len(nameAlphabet))]
	}
	g := r.Bytes(16)
	switch r.Intn(5) {
	case 0: // leading-zero integer fields
		g[3], g[2], g[5], g[7] = 0, 0, 0, 0
	case 1:
		for i := 8; i < 16; i++ {
			g[i] = 0xff
		}
	case 2:
		g[8], g[9], g[10] = 0, 0x0a, 0
	case 3:
		for i := range g {
			g[i] = 0
		}
		g[15] = 1
	}
	return VarSpec{Name: string(name), GUID: fmt.Sprintf("%x", g), Attrs: uint32(r.Intn(0x80))}
}

func genVal(r *R) ValSpec {
	switch r.Intn(7) {
	case 0:
		return ValSpec{Kind: "hashdb", N: r.Range(0, 5), Tag: r.Intn(200)}
	case 1:
		return ValSpec{Kind: "certdb", Tag: r.Intn(poolSize)}
	case 2:
		return ValSpec{Kind: "randdb", Tag: r.Intn(1 << 24)}
	default:
		n := Pick(r, []int{0, 1, 2, 3, 4, 5, 8, 47, 48, 511, 512, 4095, 4096})
		if r.Chance(1, 40) {
			n = 65536
		}
		if r.Chance(1, 3) {
			n = r.Range(0, 300)
		}
		return ValSpec{Kind: "raw", N: n, Tag: r.Intn(1 << 20)}
	}
}

func (e *fstraceEngine) Gen(seed uint64, tier string, run int) *Trace {
	grid := e.gridCases()
	var c ftCase
	if run < len(grid) {
		c = grid[run]
	} else {
		r := NewR(seed, "fstrace", run)
		c.cfg.Dir = Pick(r, ftDirs)
		switch r.Intn(4) {
		case 0:
			c.cfg.Chunks = []int{1}
		case 1:
			c.cfg.Chunks = []int{r.Range(1, 9), r.Range(1, 5), r.Range(1, 4096)}
		case 2:
			c.cfg.Chunks = []int{4, 1, 0}
		}
		c.cfg.Key = r.Intn(4)
		nops := r.Range(1, 4)
		vars := []VarSpec{genVarSpec(r), genVarSpec(r)}
		if r.Chance(1, 4) {
			// two variables that share the name and differ only in the vendor GUID
			tw := vars[0]
			if tw.Sym != "" {
				v := tw.Var()
				tw = VarSpec{Name: v.Name, Attrs: uint32(v.Attributes)}
			}
			tw.GUID = fmt.Sprintf("%x", r.Bytes(16))
			vars[1] = tw
		}
		mode := r.Intn(10)
		if mode == 0 {
			c.cfg.ShortWrite = r.Range(1, 6)
		}
		if mode == 3 && r.Chance(1, 3) {
			c.cfg.NoDir = true
		}
		if mode == 1 || mode == 2 {
			// interleaved callers, each on a variable of its own
			c.cfg.Clients = r.Range(2, 3)
			vars = nil
			for len(vars) < c.cfg.Clients {
				v := genVarSpec(r)
				dup := false
				for _, o := range vars {
					a, b := o.Var(), v.Var()
					if a.Name == b.Name && *a.GUID == *b.GUID {
						dup = true
					}
				}
				if !dup {
					vars = append(vars, v)
				}
			}
			nops = r.Range(c.cfg.Clients, 2*c.cfg.Clients)
			if r.Chance(1, 4) {
				// several callers read one variable at the same time
				c.cfg.SameVar = true
				v := vars[0]
				st := &StoredSpec{Mask: uint32(v.Var().Attributes) | uint32(r.Intn(2))<<3, Val: genVal(r)}
				for i := 0; i < nops; i++ {
					op := ftOp{C: i % c.cfg.Clients, Op: "read", API: Pick(r, []string{"legacy.ReadEfivarsWithGuid", "legacy.ReadEfivarsWithGuid", "obj.GetVar", "obj.GetVarWithAttributes"}), Var: v}
					if i == 0 {
						op.Stored = st
					}
					c.ops = append(c.ops, op)
				}
				nops = 0
			}
		}
		for i := 0; i < nops; i++ {
			v := Pick(r, vars)
			cl := 0
			if c.cfg.Clients > 1 {
				cl = i % c.cfg.Clients
				v = vars[cl]
			}
			if c.cfg.Clients <= 1 && r.Chance(1, 8) {
				// address the variable by name only: the legacy API picks the namespace
				// (sequential runs only: interleaved callers each own their variables)
				vv := v.Var()
				nm := vv.Name
				if r.Chance(1, 3) {
					nm = Pick(r, []string{"db", "dbx", "dbt", "dbr"}) + Pick(r, []string{"", "", "Default", "x", "2"})
				}
				g := refLegacyGUID(nm)
				v = VarSpec{Name: nm, GUID: fmt.Sprintf("%x", refGUIDWire(g)), Attrs: uint32(vv.Attributes)}
				if r.Bool() {
					c.ops = append(c.ops, ftOp{C: cl, Op: "write", API: "legacy.WriteEfivars", Var: v, Val: genVal(r)})
				} else {
					c.ops = append(c.ops, ftOp{C: cl, Op: "read", API: "legacy.ReadEfivars", Var: v, Stored: &StoredSpec{Mask: uint32(vv.Attributes), Val: genVal(r)}})
				}
				continue
			}
			if c.cfg.Clients <= 1 && r.Chance(1, 14) {
				g := Pick(r, ftEfiGetters)
				req := uint32(predefinedVar(g.sym).Attributes)
				st := &StoredSpec{Mask: req, Val: Pick(r, []ValSpec{{Kind: "randdb", Tag: r.Intn(1 << 24)}, {Kind: "hashdb", N: r.Range(0, 9), Tag: r.Intn(200)}, {Kind: "certdb", Tag: r.Intn(poolSize)}})}
				switch r.Intn(4) {
				case 0:
					st.Mask = uint32(r.Intn(0x80))
				case 1:
					st.Mask = Pick(r, storedMasks(req))
				case 2:
					st.Mask = req | uint32(r.Intn(0x100))
				}
				c.ops = append(c.ops, ftOp{C: cl, Op: "read", API: g.api, Var: VarSpec{Sym: g.sym}, Stored: st})
				continue
			}
			if c.cfg.Clients <= 1 && r.Chance(1, 7) {
				// a typed accessor on a value of arbitrary (well-formed) shape
				acc := Pick(r, ftTyped)
				val := acc.val
				switch acc.val.Kind {
				case "certdb", "hashdb":
					val = Pick(r, []ValSpec{{Kind: "randdb", Tag: r.Intn(1 << 24)}, {Kind: "randdb", Tag: r.Intn(1 << 24)}, {Kind: "hashdb", N: r.Range(0, 9), Tag: r.Intn(200)},
						{Kind: "certdb", Tag: r.Intn(poolSize)}, {Kind: "multidb", N: r.Range(2, 4), Tag: r.Intn(4)}, {Kind: "tailemptydb", N: r.Intn(3), Tag: r.Intn(4)}})
				case "bool":
					val.N = r.Intn(2)
				case "bootorder":
					val.N, val.Tag = r.Range(1, 9), r.Intn(0x10000)
					if r.Chance(1, 4) {
						val.Kind = "bootorder_odd"
					}
				case "str":
					val.Tag = r.Intn(100000)
					if r.Chance(1, 3) {
						val.Kind = "str2"
					}
				}
				req := uint32(acc.v().Attributes)
				st := &StoredSpec{Mask: req, Val: val}
				if r.Chance(1, 4) {
					st.Mask = req | uint32(r.Intn(0x100))
				}
				c.ops = append(c.ops, ftOp{C: cl, Op: "read", API: "typed." + acc.name, Var: acc.spec, Stored: st})
				continue
			}
			if r.Bool() {
				api := Pick(r, ftWriteAPIs)
				if r.Chance(1, 12) && v.Sym != "" && c.cfg.Clients <= 1 {
					api = "obj.WriteSignedUpdate"
				}
				wop := ftOp{C: cl, Op: "write", API: api, Var: v, Val: genVal(r)}
				if api == "obj.WriteVar" && c.cfg.Clients <= 1 && r.Chance(1, 8) {
					// a signed update as the value, and the same update object again for another write of this run
					wop.Blob, wop.Val = true, ValSpec{Kind: "hashdb", N: r.Range(0, 3), Tag: r.Intn(4)}
					c.ops = append(c.ops, wop)
					wop.Var = Pick(r, vars)
				}
				c.ops = append(c.ops, wop)
			} else {
				op := ftOp{C: cl, Op: "read", API: Pick(r, ftReadAPIs), Var: v, SinkFails: r.Chance(1, 20)}
				if r.Chance(2, 3) {
					req := uint32(v.Var().Attributes)
					st := &StoredSpec{Val: genVal(r)}
					switch r.Intn(8) {
					case 0:
						st.Absent = true
					case 1:
						st.IsShrt, st.Short, st.Mask = true, r.Intn(4), req
					case 2:
						st.Mask = req | uint32(r.Intn(0x100))
					case 3:
						st.Mask = uint32(r.Intn(0x100))
					case 4:
						ms := storedMasks(req)
						st.Mask = Pick(r, ms)
					default:
						st.Mask = req
					}
					op.Stored = st
					st.KeepTime = r.Bool()
					if !st.Absent && !st.IsShrt && c.cfg.Clients <= 1 && r.Chance(1, 3) {
						// the same handle has read this variable just before, and what it read had the same length: the
						// store in between is somebody else's (firmware, another handle, another tool)
						prev := op
						pst := *st
						pst.Val.Tag ^= 1 + r.Intn(255)
						pst.KeepTime = false
						prev.Stored, prev.SinkFails = &pst, false
						if r.Bool() {
							prev.API = Pick(r, ftReadAPIs)
						}
						c.ops = append(c.ops, prev)
					}
				}
				c.ops = append(c.ops, op)
			}
		}
		if c.cfg.Clients > 1 {
			est := 6 * len(c.ops)
			gap := Pick(r, []int{1, 1, 2, 3})
			for y := r.Intn(gap + 1); y < est; y += 1 + r.Intn(2*gap) {
				c.sw = append(c.sw, Switch{Yield: y, Next: r.Intn(c.cfg.Clients)})
			}
		}
	}
	return &Trace{Property: "C11", Engine: "fstrace", Seed: seed, Run: run, Tier: tier,
		Cfg: mustJSON(c.cfg), Ops: rawList(c.ops), Faults: []json.RawMessage{}, Schedule: rawList(c.sw)}
}

// ---- firmware model: the efivarfs contract the property relies on ----

type fwVar struct {
	Attrs uint32
	Data  []byte
}

type fwModel struct {
	vars map[string]*fwVar // keyed by cleaned file path
	errs []string
}

// apply interprets the filesystem events of one operation as firmware calls.
func (m *fwModel) apply(events []FsEvent) {
	type hstate struct {
		path   string
		append bool
	}
	hs := map[int]*hstate{}
	for _, ev := range events {
		switch ev.Call {
		case cOpenFile, cCreate:
			if ev.Handle != 0 {
				hs[ev.Handle] = &hstate{path: path.Clean(ev.Path), append: ev.Flags&os.O_APPEND != 0}
				if ev.Flags&os.O_TRUNC != 0 {
					// truncating the file does not change the variable until a write arrives
				}
			}
		case cWrite, "file.WriteString", cWriteAt:
			h := hs[ev.Handle]
			if h == nil || ev.Err != "" {
				continue
			}
			buf := ev.Buf[:ev.N]
			if len(buf) < 4 {
				m.errs = append(m.errs, fmt.Sprintf("write of %d bytes to %s: EINVAL (shorter than the attribute word)", len(buf), h.path))
				continue
			}
			attrs := binary.LittleEndian.Uint32(buf)
			data := buf[4:]
			cur := m.vars[h.path]
			if h.append && attrs&0x40 != 0 && cur != nil {
				cur.Data = append(cur.Data, data...)
				continue
			}
			if len(data) == 0 {
				delete(m.vars, h.path)
				continue
			}
			m.vars[h.path] = &fwVar{Attrs: attrs &^ 0x40, Data: append([]byte(nil), data...)}
		}
	}
}

// ---- execution ----

func (e *fstraceEngine) Exec(tr *Trace, x *X) {
	var c ftCfg
	if err := json.Unmarshal(tr.Cfg, &c); err != nil {
		harnessf("fstrace cfg: %v", err)
	}
	ops, err := unrawList[ftOp](tr.Ops)
	if err != nil {
		harnessf("fstrace ops: %v", err)
	}
	needClock := false
	for _, o := range ops {
		if o.API == "obj.WriteSignedUpdate" || o.Blob {
			needClock = true
		}
	}
	sw, err := unrawList[Switch](tr.Schedule)
	if err != nil {
		harnessf("fstrace schedule: %v", err)
	}
	run := func() { ftExec(c, ops, sw, x) }
	if needClock {
		if pv := inBubble(x.T, time.Date(2031, 3, 4, 5, 6, 7, 0, time.UTC), "", run); pv != nil {
			panic(pv)
		}
	} else {
		run()
	}
}

// ftBlobs: the signed-update objects of the current run (one run at a time per worker process).
type ftBlob struct {
	m     efivar.Marshallable
	bytes []byte
}

var ftBlobs map[string]ftBlob

// ftKept: decoders of the current run that kept the memory they were handed.
var ftKept []*rawSink

func ftExec(c ftCfg, ops []ftOp, sw []Switch, x *X) {
	ftBlobs = map[string]ftBlob{}
	ftKept = nil
	defer func() {
		// what a read handed to its decoder is the decoder's: later reads must not have written over it
		for k, s := range ftKept {
			if s.Kept != nil && !bytes.Equal(s.Kept, s.Got) && !x.Failed() {
				x.Fail("fstrace.read_value", len(ops)-1, "read:kept", "the value that read %d of this run handed to its decoder changed afterwards: was %s, is now %s", k, shortHex(s.Got), shortHex(s.Kept))
			}
		}
	}()
	if c.Key%3 == 1 {
		// a caller derives a vendor GUID of its own from the text of a well-known one: what it parsed is its own value
		for _, txt := range []string{"8be4df61-93ca-11d2-aa0d-00e098032b8c", "d719b2cb-3d3a-4596-a3bc-dad00e67656f", "4a67b082-0a4c-41cf-b6c7-440b29bb8c4f"} {
			if g := util.StringToGUID(txt); g != nil {
				g.Data1 ^= 0x00ff00ff
				g.Data4[7]++
			}
		}
		x.Probe("caller_edits_a_parsed_guid")
	}
	plane := NewPlane(x)
	mem := afero.NewMemMapFs()
	sfs := NewSimFs(mem, plane, x)
	sfs.ReadMax = c.Chunks
	wr := fswrapper.NewMemoryWrapper()
	wr.SetFS(sfs)
	obj := efivarfs.Open(&efivarfs.EFIFS{FSWrapper: wr})
	efifs.SetFS(sfs)
	oldDir := attributes.Efivars
	attributes.Efivars = c.Dir
	defer func() { attributes.Efivars = oldDir }()
	fw := &fwModel{vars: map[string]*fwVar{}}
	x.Logf("dir=%q chunks=%v", c.Dir, c.Chunks)
	cleanDir := path.Clean(c.Dir)
	if c.NoDir {
		sfs.EnforceParents = true
		x.Probe("efivars_directory_absent")
	} else {
		mem.MkdirAll(cleanDir, 0o755)
	}

	runOp := func(i int, op ftOp) {
		v := op.Var.Var()
		p := path.Clean(refVarPath(c.Dir, v.Name, *v.GUID))
		x.Steps++
		switch op.Op {
		case "write":
			ftWrite(x, i, op, v, p, c, obj, sfs, mem, fw)
		case "read":
			ftRead(x, i, op, v, p, obj, sfs, mem, fw)
		default:
			harnessf("fstrace: unknown op %q", op.Op)
		}
	}
	if c.Clients > 1 {
		sched := NewSched(x, c.Clients, sw)
		if c.SameVar && len(ops) > 0 && ops[0].Stored != nil {
			// the variable is in place before the readers start; a reader that waits for another one is handed over by the monitor
			st, v0 := ops[0].Stored, ops[0].Var.Var()
			p0 := path.Clean(refVarPath(c.Dir, v0.Name, *v0.GUID))
			mem.MkdirAll(path.Dir(p0), 0o755)
			fw.vars[p0] = &fwVar{Attrs: st.Mask, Data: st.Val.Bytes()}
			afero.WriteFile(mem, p0, append(le32(st.Mask), st.Val.Bytes()...), 0o644)
			ops[0].Stored = nil
			sched.Monitor = true
			x.Probe("several_readers_of_one_variable")
		}
		plane.yield = sched.Yield
		tags := make([]int, c.Clients)
		sfs.TagFn = func() int { return tags[sched.cur] }
		ftTagOf = func(i int) int { return i + 1 }
		bodies := make([]func(), c.Clients)
		for cl := 0; cl < c.Clients; cl++ {
			cl := cl
			bodies[cl] = func() {
				for i, op := range ops {
					if op.C%c.Clients != cl || x.Failed() {
						continue
					}
					tags[cl] = i + 1
					runOp(i, op)
					tags[cl] = 0
				}
			}
		}
		sched.Run(bodies)
		plane.yield = nil
		x.SchedKey = sched.key()
		x.Probes["yields"] += sched.nyield
		x.Probes["context_switches"] += len(sched.Switches)
		if len(sched.Switches) > 0 {
			x.Probe("interleaved_callers")
		}
		x.Nontriv = len(ops) > 0
		return
	}
	ftTagOf = func(int) int { return 0 }
	for i, op := range ops {
		if x.Failed() {
			return
		}
		runOp(i, op)
	}
	x.Nontriv = len(ops) > 0
}

// ftTagOf maps an operation index to the tag its filesystem events carry.
var ftTagOf = func(int) int { return 0 }

// sync the byte store with the firmware model (harness side, not recorded)
func ftSync(mem afero.Fs, p string, fw *fwModel) {
	if fv := fw.vars[p]; fv != nil {
		afero.WriteFile(mem, p, append(le32(fv.Attrs), fv.Data...), 0o644)
	} else {
		mem.Remove(p)
	}
}

func ftWrite(x *X, i int, op ftOp, v efivar.Efivar, p string, c ftCfg, obj *efivarfs.Efivarfs, sfs *SimFs, mem afero.Fs, fw *fwModel) {
	val := op.Val.Bytes()
	var marsh efivar.Marshallable = libVal(val, i%2 == 1)
	if op.Blob && op.API == "obj.WriteVar" {
		key := fmt.Sprint(op.Val, c.Key)
		b, ok := ftBlobs[key]
		if !ok {
			pk := Pool()[c.Key%poolSize]
			_, m, err := signature.SignEFIVariable(efivar.Db, rawVal(val), pk.Key, pk.Cert)
			if err != nil {
				harnessf("fstrace: SignEFIVariable: %v", err)
			}
			b = ftBlob{m: m, bytes: m.Bytes()}
			ftBlobs[key] = b
		} else {
			x.Probe("same_update_object_written_again")
		}
		marsh, val = b.m, b.bytes
	}
	mask := uint32(v.Attributes)
	kind := "write:" + op.API
	x.Logf("op %d %s var=%s val=%s", i, kind, op.Var.String(), shortHex(val))
	before := fw.vars[p]
	var old []byte
	if before != nil {
		old = append([]byte(nil), before.Data...)
	}
	start := len(sfs.Events)
	sfs.ShortWriteNext = c.ShortWrite
	var err error
	var pv any
	func() {
		defer func() { pv = recover() }()
		switch op.API {
		case "obj.WriteVar":
			err = obj.WriteVar(v, marsh)
		case "obj.WriteSignedUpdate":
			pk := Pool()[c.Key%poolSize]
			err = obj.WriteSignedUpdate(v, marsh, pk.Key, pk.Cert)
		case "legacy.WriteEfivarsWithGuid":
			err = attributes.WriteEfivarsWithGuid(v.Name, v.Attributes, val, *v.GUID)
		case "legacy.WriteEfivars":
			err = attributes.WriteEfivars(v.Name, v.Attributes, val)
		case "efi.WriteEFIVariable":
			err = efi.WriteEFIVariable(v.Name, val)
		default:
			harnessf("fstrace: unknown write api %q", op.API)
		}
	}()
	if pv != nil {
		if he, ok := pv.(*HarnessError); ok {
			panic(he)
		}
		x.Fail("fstrace.no_panic", i, kind, "write panicked: %v", pv)
		return
	}
	evs := sfs.Since(start, ftTagOf(i))
	if c.NoDir {
		// no variable store: the write cannot succeed, and the library must not create one
		for _, ev := range evs {
			if ev.Call == cOpenFile && ev.Err != "" {
				continue // the refused open itself
			}
			if ev.mutating() {
				x.Fail("fstrace.touches_nothing_else", i, kind, "the efivars directory does not exist and the library issued %s", ev.String())
				return
			}
		}
		if err == nil {
			x.Fail("fstrace.write_succeeds", i, kind, "write into a missing efivars directory reported success")
		}
		return
	}
	if c.ShortWrite > 0 {
		// the device took only part of the buffer: whatever the library reports, it must not issue a second write
		nw := 0
		for _, ev := range evs {
			if ev.Call == cWrite || ev.Call == cWriteAt || ev.Call == "file.WriteString" {
				nw++
			}
		}
		x.Probe("short_write_device")
		nopen := 0
		for _, ev := range evs {
			switch {
			case ev.Call == cOpenFile && ev.mutating():
				nopen++
			case ev.Call == cWrite || ev.Call == cClose:
			case ev.mutating():
				x.Fail("fstrace.touches_nothing_else", i, kind, "after the device took a short count the library issued %s", ev.String())
				return
			}
		}
		if nopen > 1 {
			x.Fail("fstrace.one_open", i, kind, "after the device took a short count the library opened the variable %d times", nopen)
			return
		}
		if nw != 1 {
			x.Fail("fstrace.one_write", i, kind, "the device accepted a short count and the library issued %d writes; each write is one SetVariable call (returned err=%v)", nw, err)
			return
		}
		delete(fw.vars, p)
		mem.Remove(p)
		return
	}
	if err != nil {
		x.Fail("fstrace.write_succeeds", i, kind, "fault-free write returned an error: %v", err)
		return
	}
	// --- the trace oracle ---
	var opens, writes []FsEvent
	for _, ev := range evs {
		switch {
		case ev.Call == cOpenFile && ev.mutating(), ev.Call == cCreate:
			opens = append(opens, ev)
		case ev.Call == cWrite:
			writes = append(writes, ev)
		case ev.mutating():
			x.Fail("fstrace.touches_nothing_else", i, kind, "unexpected mutating call %s", ev.String())
			return
		}
	}
	if len(opens) != 1 {
		x.Fail("fstrace.one_open", i, kind, "expected exactly one writable open, saw %d: %v", len(opens), opens)
		return
	}
	o := opens[0]
	if o.Call != cOpenFile {
		x.Fail("fstrace.open_flags", i, kind, "variable opened with %s", o.Call)
		return
	}
	if path.Clean(o.Path) != p {
		x.Fail("fstrace.path", i, kind, "opened %q, the contract names %q", o.Path, p)
		return
	}
	if acc := o.Flags & (os.O_RDONLY | os.O_WRONLY | os.O_RDWR); acc != os.O_WRONLY {
		x.Fail("fstrace.open_flags", i, kind, "access mode %#x is not O_WRONLY (flags %#x)", acc, o.Flags)
		return
	}
	if o.Flags&os.O_CREATE == 0 {
		x.Fail("fstrace.open_flags", i, kind, "O_CREATE missing (flags %#x)", o.Flags)
		return
	}
	wantAppend := mask&0x40 != 0
	if (o.Flags&os.O_APPEND != 0) != wantAppend {
		x.Fail("fstrace.append_iff_append_write", i, kind, "O_APPEND=%v but APPEND_WRITE=%v (flags %#x, attrs %#x)", o.Flags&os.O_APPEND != 0, wantAppend, o.Flags, mask)
		return
	}
	if len(writes) != 1 {
		x.Fail("fstrace.one_write", i, kind, "expected exactly one Write, saw %d", len(writes))
		return
	}
	wv := writes[0]
	if wv.Handle != o.Handle {
		x.Fail("fstrace.one_write", i, kind, "Write went to handle %d, the variable is handle %d", wv.Handle, o.Handle)
		return
	}
	if len(wv.Buf) < 4 || !bytes.Equal(wv.Buf[:4], le32(mask)) {
		x.Fail("fstrace.buffer", i, kind, "buffer does not start with the little-endian attribute mask %#x: %s", mask, shortHex(wv.Buf))
		return
	}
	payload := wv.Buf[4:]
	want := val
	if op.API == "obj.WriteSignedUpdate" {
		// descriptor || payload; the descriptor is C06's business, here only the framing
		if len(payload) < 16+8+16 {
			x.Fail("fstrace.buffer", i, kind, "signed update shorter than a descriptor")
			return
		}
		dw := int(binary.LittleEndian.Uint32(payload[16:]))
		if 16+dw > len(payload) {
			x.Fail("fstrace.buffer", i, kind, "descriptor length %d exceeds the buffer", dw)
			return
		}
		if !bytes.Equal(payload[16+dw:], val) {
			x.Fail("fstrace.buffer", i, kind, "bytes after the descriptor differ from the payload")
			return
		}
		want = payload
		x.Probe("signed_update_traced")
	} else if !bytes.Equal(payload, val) {
		x.Fail("fstrace.buffer", i, kind, "buffer after the mask differs from the encoded value: %s vs %s", shortHex(payload), shortHex(val))
		return
	}
	// --- the firmware end state ---
	fw.apply(evs)
	if len(fw.errs) > 0 {
		x.Fail("fstrace.firmware_state", i, kind, "firmware rejected a write: %v", fw.errs)
		return
	}
	after := fw.vars[p]
	switch {
	case wantAppend && before != nil:
		x.Probe("append_to_existing")
		if after == nil || !bytes.Equal(after.Data, append(old, want...)) {
			x.Fail("fstrace.firmware_state", i, kind, "append write did not extend the variable")
			return
		}
	case len(want) == 0:
		x.Probe("empty_value_deletes")
		if after != nil {
			x.Fail("fstrace.firmware_state", i, kind, "empty value left a variable behind")
			return
		}
	default:
		if after == nil || after.Attrs != mask&^0x40 || !bytes.Equal(after.Data, want) {
			x.Fail("fstrace.firmware_state", i, kind, "firmware holds %+v, expected attrs=%#x data=%s", after, mask, shortHex(want))
			return
		}
	}
	for k := range fw.vars {
		_ = k
	}
	x.State(h64("w", op.API, mask&0x40 != 0, len(val) == 0, before != nil))
	ftSync(mem, p, fw)
}

func ftRead(x *X, i int, op ftOp, v efivar.Efivar, p string, obj *efivarfs.Efivarfs, sfs *SimFs, mem afero.Fs, fw *fwModel) {
	kind := "read:" + op.API
	if st := op.Stored; st != nil && !(sfs.EnforceParents) {
		switch {
		case st.Absent:
			delete(fw.vars, p)
			mem.Remove(p)
		case st.IsShrt:
			delete(fw.vars, p)
			afero.WriteFile(mem, p, le32(st.Mask)[:st.Short], 0o644)
		default:
			fw.vars[p] = &fwVar{Attrs: st.Mask, Data: st.Val.Bytes()}
			// (the in-memory store's FileInfo is a live view of the file: take time and size out of it before the store)
			var oldTime time.Time
			oldSize := int64(-1)
			if before, serr := mem.Stat(p); serr == nil {
				oldTime, oldSize = before.ModTime(), before.Size()
			}
			afero.WriteFile(mem, p, append(le32(st.Mask), st.Val.Bytes()...), 0o644)
			if st.KeepTime && oldSize >= 0 {
				mem.Chtimes(p, oldTime, oldTime)
				x.Probe("foreign_store_keeps_mtime")
				if oldSize == int64(4+len(st.Val.Bytes())) {
					x.Probe("foreign_store_same_length_same_mtime")
				}
			}
		}
	}
	raw, rerr := afero.ReadFile(mem, p)
	present := rerr == nil
	x.Logf("op %d %s var=%s stored=%v/%s", i, kind, op.Var.String(), present, shortHex(raw))
	req := uint32(v.Attributes)
	start := len(sfs.Events)
	sink := &rawSink{Keep: i%2 == 0}
	if sink.Keep {
		ftKept = append(ftKept, sink)
	}
	if op.SinkFails {
		sink.Fail = errors.New("harness decoder refuses")
	}
	var (
		err      error
		gotAttrs uint32
		hasAttrs bool
		gotVal   []byte
		hasVal   bool
		typed    string
		pv       any
	)
	func() {
		defer func() { pv = recover() }()
		switch op.API {
		case "obj.GetVar":
			err = obj.GetVar(v, sink)
		case "obj.GetVarWithAttributes":
			var a attributes.Attributes
			a, err = obj.GetVarWithAttributes(v, sink)
			gotAttrs, hasAttrs = uint32(a), true
		case "legacy.ReadEfivarsWithGuid", "legacy.ReadEfivars":
			var a attributes.Attributes
			var b *bytes.Buffer
			if op.API == "legacy.ReadEfivars" {
				a, b, err = attributes.ReadEfivars(v.Name)
			} else {
				a, b, err = attributes.ReadEfivarsWithGuid(v.Name, *v.GUID)
			}
			gotAttrs, hasAttrs = uint32(a), true
			if b != nil {
				// the caller decodes from the buffer it was given, which uses it up
				gotVal, hasVal = append([]byte(nil), b.Bytes()...), true
				b.Next(b.Len())
			}
		case "efi.GetPK", "efi.GetKEK", "efi.Getdb", "efi.Getdbx":
			var db *signature.SignatureDatabase
			switch op.API {
			case "efi.GetPK":
				db, err = efi.GetPK()
			case "efi.GetKEK":
				db, err = efi.GetKEK()
			case "efi.Getdb":
				db, err = efi.Getdb()
			default:
				db, err = efi.Getdbx()
			}
			if err == nil && db != nil {
				typed = fmt.Sprintf("db:%x|%s", db.Bytes(), libStructure(db))
			} else if err == nil {
				err = errors.New("nil database, nil error")
			}
		default:
			ftBootName = v.Name
			typed, err = ftTypedRead(obj, op.API)
		}
	}()
	if pv != nil {
		if he, ok := pv.(*HarnessError); ok {
			panic(he)
		}
		x.Fail("fstrace.no_panic", i, kind, "read panicked: %v", pv)
		return
	}
	for _, ev := range sfs.Since(start, ftTagOf(i)) {
		if ev.mutating() {
			x.Fail("fstrace.touches_nothing_else", i, kind, "read issued a mutating call %s", ev.String())
			return
		}
		if (ev.Call == cOpen || ev.Call == cOpenFile) && path.Clean(ev.Path) != p {
			x.Fail("fstrace.path", i, kind, "read opened %q, the contract names %q", ev.Path, p)
			return
		}
	}
	legacy := op.API == "legacy.ReadEfivarsWithGuid" || op.API == "legacy.ReadEfivars"
	isTyped := len(op.API) > 6 && op.API[:6] == "typed."
	// the top-level getters of package efi: they define an absent (or empty) variable as "not set" and answer with an empty
	// database, and they report a mask that lacks a required attribute with an error of their own. What the statement says
	// about present variables holds for them too: no value from a variable whose stored mask lacks a required attribute, and
	// otherwise the value decoded from the bytes behind the mask.
	isEfi := len(op.API) > 4 && op.API[:4] == "efi."
	if isEfi {
		x.Probe("legacy_toplevel_getter")
		if !present || len(raw) < 4 {
			return
		}
		stored := binary.LittleEndian.Uint32(raw)
		if req&^stored != 0 {
			if err == nil {
				x.Fail("fstrace.wrong_attributes_error", i, kind, "stored mask %#x lacks required %#x but the getter returned a database (%s)", stored, req&^stored, shortHex([]byte(typed)))
			}
			return
		}
		want, bad := ftTypedRef("typed.GetPK", raw[4:])
		if bad {
			if err == nil {
				x.Fail("fstrace.read_value", i, kind, "undecodable value but the getter succeeded with %q", typed)
			}
			return
		}
		if err != nil {
			x.Fail("fstrace.read_succeeds", i, kind, "well-formed variable with sufficient attributes, getter returned %v", err)
			return
		}
		if typed != want {
			x.Fail("fstrace.read_value", i, kind, "getter returned %s, reference decode gives %s", shortHex([]byte(typed)), shortHex([]byte(want)))
		}
		return
	}
	if !present || len(raw) < 4 {
		x.State(h64("r", op.API, "absent-or-short", present))
		if err == nil {
			x.Fail("fstrace.absent_or_short_is_error", i, kind, "file present=%v len=%d but the read succeeded", present, len(raw))
		}
		return
	}
	stored := binary.LittleEndian.Uint32(raw)
	value := raw[4:]
	if !legacy && req&^stored != 0 {
		x.State(h64("r", op.API, "lacks-required"))
		if op.API == "typed.GetBootOrder" {
			// the accessor has no error result: nil is how it reports failure
			if err == nil {
				x.Fail("fstrace.wrong_attributes_error", i, kind, "stored mask %#x lacks required %#x but the accessor returned a boot order", stored, req&^stored)
			}
			return
		}
		if !errors.Is(err, efivarfs.ErrIncorrectAttributes) {
			x.Fail("fstrace.wrong_attributes_error", i, kind, "stored mask %#x lacks required %#x but the read returned err=%v", stored, req&^stored, err)
			return
		}
		if sink.Called != 0 {
			x.Fail("fstrace.no_decode_before_attribute_check", i, kind, "decoder was called although the attribute check failed")
		}
		return
	}
	x.State(h64("r", op.API, "ok", stored == req, len(value) == 0, op.SinkFails))
	if isTyped && op.API == "typed.GetBootOrder" && len(value)%2 == 1 {
		// what a stray byte behind the last entry decodes to is not said anywhere; that the accessor survives it is checked above (no panic)
		x.Probe("boot_order_with_stray_byte")
		return
	}
	if isTyped {
		wantTyped, wantErr := ftTypedRef(op.API, value)
		if wantErr {
			if err == nil {
				x.Fail("fstrace.read_value", i, kind, "undecodable value but the accessor succeeded with %q", typed)
			}
			return
		}
		if err != nil {
			x.Fail("fstrace.read_succeeds", i, kind, "well-formed variable, accessor returned %v", err)
			return
		}
		// Boot#### names: which case the hexadecimal digits have is another property's business (the statement here is
		// that the value comes from the bytes behind the mask), so the comparison does not look at it
		if typed != wantTyped && !(op.API == "typed.GetBootOrder" && strings.EqualFold(typed, wantTyped)) {
			x.Fail("fstrace.read_value", i, kind, "accessor returned %q, reference decode gives %q", typed, wantTyped)
		}
		return
	}
	if legacy {
		if err != nil {
			x.Fail("fstrace.read_succeeds", i, kind, "well-formed variable, read returned %v", err)
			return
		}
		if !hasVal || !bytes.Equal(gotVal, value) || gotAttrs != stored {
			x.Fail("fstrace.read_value", i, kind, "read returned attrs=%#x value=%s, stored attrs=%#x value=%s", gotAttrs, shortHex(gotVal), stored, shortHex(value))
		}
		return
	}
	if op.SinkFails {
		if err == nil {
			x.Fail("fstrace.decode_error_propagates", i, kind, "decoder failed but the read succeeded")
		}
		return
	}
	if err != nil {
		x.Fail("fstrace.read_succeeds", i, kind, "well-formed variable with sufficient attributes, read returned %v", err)
		return
	}
	if sink.Called != 1 || !bytes.Equal(sink.Got, value) {
		x.Fail("fstrace.read_value", i, kind, "decoder called %d time(s) with %s, the bytes after the first four are %s", sink.Called, shortHex(sink.Got), shortHex(value))
		return
	}
	if hasAttrs && gotAttrs != stored {
		x.Fail("fstrace.read_attrs", i, kind, "returned attributes %#x, stored %#x", gotAttrs, stored)
	}
}

// ftBootName is the boot option the next typed.GetBootEntry read asks for.
var ftBootName = "Boot0001"

func ftTypedRead(obj *efivarfs.Efivarfs, api string) (string, error) {
	dbs := func(db *signature.SignatureDatabase, err error) (string, error) {
		if err != nil {
			return "", err
		}
		if db == nil {
			return "", errors.New("nil database, nil error")
		}
		return fmt.Sprintf("db:%x|%s", db.Bytes(), libStructure(db)), nil
	}
	switch api[6:] {
	case "GetPK":
		return dbs(obj.GetPK())
	case "GetKEK":
		return dbs(obj.GetKEK())
	case "Getdb":
		return dbs(obj.Getdb())
	case "Getdbx":
		return dbs(obj.Getdbx())
	case "GetSetupMode":
		b, err := obj.GetSetupMode()
		return fmt.Sprint(b), err
	case "GetSecureBoot":
		b, err := obj.GetSecureBoot()
		return fmt.Sprint(b), err
	case "GetBootOrder":
		bo := obj.GetBootOrder()
		if bo == nil {
			return "", errors.New("nil boot order")
		}
		return fmt.Sprint([]string(bo)), nil
	case "GetBootEntry":
		en, err := obj.GetBootEntry(ftBootName)
		if err != nil {
			return "", err
		}
		return fmt.Sprintf("%q", en.Description), nil
	case "GetLoaderEntrySelected":
		return obj.GetLoaderEntrySelected()
	}
	harnessf("fstrace: unknown typed accessor %q", api)
	return "", nil
}

// ftTypedRef decodes a value the way the specification defines the variable.
func ftTypedRef(api string, value []byte) (string, bool) {
	switch api[6:] {
	case "GetPK", "GetKEK", "Getdb", "Getdbx":
		ls, err := refESLDecode(value)
		if err != nil {
			return "", true
		}
		return fmt.Sprintf("db:%x|%s", value, refStructure(ls)), false
	case "GetSetupMode", "GetSecureBoot":
		if len(value) < 1 {
			return "", true
		}
		return fmt.Sprint(value[0] == 1), false
	case "GetBootOrder":
		var out []string
		for i := 0; i+1 < len(value); i += 2 {
			out = append(out, fmt.Sprintf("Boot%04x", binary.LittleEndian.Uint16(value[i:])))
		}
		if out == nil {
			return "", true
		}
		return fmt.Sprint(out), false
	case "GetBootEntry":
		// EFI_LOAD_OPTION: UINT32 Attributes; UINT16 FilePathListLength; CHAR16 Description[]; …
		if len(value) < 8 {
			return "", true
		}
		var u []uint16
		for i := 6; i+1 < len(value); i += 2 {
			c := binary.LittleEndian.Uint16(value[i:])
			if c == 0 {
				break
			}
			u = append(u, c)
		}
		return fmt.Sprintf("%q", string(utf16.Decode(u))), false
	case "GetLoaderEntrySelected":
		var u []uint16
		for i := 0; i+1 < len(value); i += 2 {
			c := binary.LittleEndian.Uint16(value[i:])
			if c == 0 {
				break
			}
			u = append(u, c)
		}
		return string(utf16.Decode(u)), false
	}
	return "", true
}

var _ = util.EFIGUID{}
