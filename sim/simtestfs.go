package sim

import (
	"github.com/foxboron/go-uefi/efivarfs/testfs"
	"github.com/spf13/afero"
)

// simTestFS returns the library's in-memory test store with the simulated
// filesystem underneath. (TestFS.Open() would install a fresh MemMapFs of its
// own; callers wrap the returned value with efivarfs.Open instead.)
func simTestFS(fs afero.Fs) *testfs.TestFS {
	t := testfs.NewTestFS()
	t.SetFS(fs)
	return t
}
