package sim

import (
	"reflect"
	"unsafe"

	"github.com/foxboron/go-uefi/efivarfs/testfs"
	"github.com/spf13/afero"
)

// testfsBacking finds the byte store an opened TestFS composed (it keeps it in an unexported field and removes
// replaced variables from it directly). nil when the store has no field of type afero.Fs.
func testfsBacking(t *testfs.TestFS) afero.Fs {
	v := reflect.ValueOf(t).Elem()
	fsType := reflect.TypeOf((*afero.Fs)(nil)).Elem()
	for i := 0; i < v.NumField(); i++ {
		f := v.Field(i)
		if f.Type() == fsType && !f.IsNil() {
			return reflect.NewAt(f.Type(), unsafe.Pointer(f.UnsafeAddr())).Elem().Interface().(afero.Fs)
		}
	}
	return nil
}

// simTestFS returns the library's in-memory test store with the simulated
// filesystem underneath. (TestFS.Open() would install a fresh MemMapFs of its
// own; callers wrap the returned value with efivarfs.Open instead.)
func simTestFS(fs afero.Fs) *testfs.TestFS {
	t := testfs.NewTestFS()
	t.SetFS(fs)
	return t
}
