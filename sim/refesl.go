package sim

import (
	"encoding/binary"
	"fmt"
	"github.com/foxboron/go-uefi/efi/signature"
	"strings"
)

// refesl: EFI_SIGNATURE_LIST stream reader/writer written from UEFI 2.8
// section 32.4.1. Every signature type is handled generically through the size
// equations; nothing here knows what a certificate or a hash is.
//
//   EFI_SIGNATURE_LIST { GUID SignatureType; UINT32 SignatureListSize;
//                        UINT32 SignatureHeaderSize; UINT32 SignatureSize;
//                        UINT8 SignatureHeader[SignatureHeaderSize];
//                        EFI_SIGNATURE_DATA Signatures[][SignatureSize]; }
//   EFI_SIGNATURE_DATA { GUID SignatureOwner; UINT8 SignatureData[]; }

type RefSig struct {
	Owner [16]byte
	Data  []byte
}

type RefList struct {
	Type   [16]byte
	Header []byte
	Size   uint32 // SignatureSize = 16 + len(data)
	Sigs   []RefSig
}

func refESLEncode(ls []RefList) []byte {
	var out []byte
	for _, l := range ls {
		total := 28 + len(l.Header) + len(l.Sigs)*int(l.Size)
		out = append(out, l.Type[:]...)
		out = binary.LittleEndian.AppendUint32(out, uint32(total))
		out = binary.LittleEndian.AppendUint32(out, uint32(len(l.Header)))
		out = binary.LittleEndian.AppendUint32(out, l.Size)
		out = append(out, l.Header...)
		for _, s := range l.Sigs {
			out = append(out, s.Owner[:]...)
			out = append(out, s.Data...)
		}
	}
	return out
}

// refESLDecode accepts exactly the well-formed streams.
func refESLDecode(b []byte) ([]RefList, error) {
	var out []RefList
	off := 0
	for off < len(b) {
		if len(b)-off < 28 {
			return nil, fmt.Errorf("list at %d: %d trailing bytes, less than a list header", off, len(b)-off)
		}
		var l RefList
		copy(l.Type[:], b[off:])
		listSize := binary.LittleEndian.Uint32(b[off+16:])
		hdrSize := binary.LittleEndian.Uint32(b[off+20:])
		l.Size = binary.LittleEndian.Uint32(b[off+24:])
		if uint64(listSize) > uint64(len(b)-off) {
			return nil, fmt.Errorf("list at %d: SignatureListSize %d exceeds remaining %d", off, listSize, len(b)-off)
		}
		if uint64(listSize) < 28+uint64(hdrSize) {
			return nil, fmt.Errorf("list at %d: SignatureListSize %d smaller than header 28+%d", off, listSize, hdrSize)
		}
		body := uint64(listSize) - 28 - uint64(hdrSize)
		if body > 0 {
			if l.Size < 16 {
				return nil, fmt.Errorf("list at %d: SignatureSize %d < 16", off, l.Size)
			}
			if body%uint64(l.Size) != 0 {
				return nil, fmt.Errorf("list at %d: body %d not a multiple of SignatureSize %d", off, body, l.Size)
			}
		}
		p := off + 28
		l.Header = append([]byte(nil), b[p:p+int(hdrSize)]...)
		p += int(hdrSize)
		for n := uint64(0); body > 0 && n < body/uint64(l.Size); n++ {
			var s RefSig
			copy(s.Owner[:], b[p:])
			s.Data = append([]byte(nil), b[p+16:p+int(l.Size)]...)
			l.Sigs = append(l.Sigs, s)
			p += int(l.Size)
		}
		out = append(out, l)
		off += int(listSize)
	}
	return out, nil
}

// Well-known signature type GUIDs in wire order (UEFI 2.8 section 32.4.1).
var (
	wireSHA256  = [16]byte{0x26, 0x16, 0xc4, 0xc1, 0x4c, 0x50, 0x92, 0x40, 0xac, 0xa9, 0x41, 0xf9, 0x36, 0x93, 0x43, 0x28}
	wireX509    = [16]byte{0xa1, 0x59, 0xc0, 0xa5, 0xe4, 0x94, 0xa7, 0x4a, 0x87, 0xb5, 0xab, 0x15, 0x5c, 0x2b, 0xf0, 0x72}
	wireExtMgmt = [16]byte{0xed, 0x8c, 0x2e, 0x45, 0xff, 0xdf, 0x8c, 0x4b, 0xae, 0x01, 0x51, 0x18, 0x86, 0x2e, 0x68, 0x2c}
	wireSHA1    = [16]byte{0x12, 0xa5, 0x6c, 0x82, 0x10, 0xcf, 0xc9, 0x4a, 0xb1, 0x87, 0xbe, 0x01, 0x49, 0x66, 0x31, 0xbd}
	wireRSA2048 = [16]byte{0xe8, 0x66, 0x57, 0x3c, 0x9c, 0x26, 0x34, 0x4e, 0xaa, 0x14, 0xed, 0x77, 0x6e, 0x85, 0xb3, 0xb6}
)

// refHashDB builds a database of one SHA-256 list with n entries whose hashes
// are derived from tag, so that different (tag,n) give different values.
func refHashDB(tag byte, n int) []byte {
	if n == 0 {
		return nil
	}
	l := RefList{Type: wireSHA256, Size: 48}
	for i := 0; i < n; i++ {
		var s RefSig
		for j := range s.Owner {
			s.Owner[j] = 0xA0 + byte(j)
		}
		s.Data = make([]byte, 32)
		for j := range s.Data {
			s.Data[j] = tag ^ byte(i*7+j)
		}
		s.Data[0] = tag
		s.Data[1] = byte(i)
		l.Sigs = append(l.Sigs, s)
	}
	return refESLEncode([]RefList{l})
}

// refHashDBEntry returns the i-th hash of refHashDB(tag, n).
func refHashDBEntry(tag byte, i int) []byte {
	d := make([]byte, 32)
	for j := range d {
		d[j] = tag ^ byte(i*7+j)
	}
	d[0] = tag
	d[1] = byte(i)
	return d
}

// refRandDB is a well-formed signature database of arbitrary shape, a function of tag: 0..5 lists of the two types
// every implementation has to decode (SHA-256: 32-byte data; X.509: data of any one length per list), each with 0..4
// entries — lists without entries may stand in front, in the middle and at the end — arbitrary owners, and entry
// data lengths from 1 byte to a few KiB (plus real certificates).
func refRandDB(tag uint64) []byte {
	r := &R{s: tag*0x9e3779b97f4a7c15 + 0x5bd1e995}
	var ls []RefList
	for n := r.Intn(6); n > 0; n-- {
		var l RefList
		cnt := r.Intn(5)
		if r.Chance(1, 4) {
			cnt = 0
		}
		owner := func(i int) (o [16]byte) {
			switch r.Intn(3) {
			case 0:
				copy(o[:], r.Bytes(16))
			case 1:
				o[r.Intn(16)] = byte(1 + r.Intn(255))
			}
			o[7] = byte(i + 1) // the entries of one list are distinct
			return
		}
		if r.Bool() {
			l.Type, l.Size = wireSHA256, 48
			for i := 0; i < cnt; i++ {
				l.Sigs = append(l.Sigs, RefSig{Owner: owner(i), Data: r.Bytes(32)})
			}
		} else {
			l.Type = wireX509
			var dl int
			switch r.Intn(4) {
			case 0:
				dl = 1 + r.Intn(64)
			case 1:
				dl = 700 + r.Intn(400)
			case 2:
				dl = Pick(r, []int{1, 12, 16, 28, 31, 32, 33, 48, 255, 256, 4096 - 16, 4096})
			default:
				dl = -1
			}
			if dl < 0 {
				c := Pool()[r.Intn(18)].CertDER // (not the 70 KB one) every entry of a list has the size of the first
				dl = len(c)
				for i := 0; i < cnt; i++ {
					l.Sigs = append(l.Sigs, RefSig{Owner: owner(i), Data: c})
				}
			} else {
				for i := 0; i < cnt; i++ {
					l.Sigs = append(l.Sigs, RefSig{Owner: owner(i), Data: r.Bytes(dl)})
				}
			}
			l.Size = uint32(16 + dl)
			if cnt == 0 && r.Bool() {
				l.Size = 0 // what NewSignatureList leaves in a list nothing was ever added to
			}
		}
		ls = append(ls, l)
	}
	return refESLEncode(ls)
}

// refStructure / libStructure: the decoded shape of a database — per list its type, how many entries it holds, and each
// entry's owner and data — so that two databases that happen to encode to the same bytes can still be told apart (an
// entry that swallowed its neighbours encodes exactly like the neighbours did).
func refStructure(ls []RefList) string {
	var b strings.Builder
	for _, l := range ls {
		fmt.Fprintf(&b, "[%x n=%d:", l.Type, len(l.Sigs))
		for _, s := range l.Sigs {
			fmt.Fprintf(&b, "(%x,%d,%x)", s.Owner, len(s.Data), h64(string(s.Data)))
		}
		b.WriteString("]")
	}
	return b.String()
}

func libStructure(db *signature.SignatureDatabase) string {
	var b strings.Builder
	for _, l := range *db {
		fmt.Fprintf(&b, "[%x n=%d:", refGUIDWire(l.SignatureType), len(l.Signatures))
		for _, s := range l.Signatures {
			fmt.Fprintf(&b, "(%x,%d,%x)", refGUIDWire(s.Owner), len(s.Data), h64(string(s.Data)))
		}
		b.WriteString("]")
	}
	return b.String()
}
