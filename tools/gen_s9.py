#!/usr/bin/env python3
"""Print the table of DESIGN.md section 9 from seeded/*/meta.json (what was changed, what it needs, the verdict of
the check as it stood when the change came back = first_verdict) and seeded/RESULTS.json (verdict of the current
checks, written by a full `./selftest sensitivity`)."""
import glob, json, os, re
V = os.path.dirname(os.path.dirname(os.path.abspath(__file__)))
res = {r["name"]: r for r in json.load(open(os.path.join(V, "seeded", "RESULTS.json")))}


def cut(s, n):
    s = " ".join(s.split()).replace("|", "/")
    return s if len(s) <= n else s[:n].rstrip() + "…"


def key(d):
    m = re.match(r"(C\d\d)-w(\d+)-(\d+)", os.path.basename(d))
    return (m.group(1), int(m.group(2)), int(m.group(3)))


print("| change | what was changed | needs | first | now | oracle that fires |")
print("|---|---|---|---|---|---|")
stats = {}
for d in sorted(glob.glob(os.path.join(V, "seeded", "C*-w*-*")), key=key):
    name = os.path.basename(d)
    m = json.load(open(os.path.join(d, "meta.json")))
    r = res.get(name, {})
    now = r.get("status", "?")
    if now == "MISSED":
        now = "MISSED"
        if m.get("expect") == "missed":
            now = "missed (open)" if m.get("why_open") else "missed (accepted)"
    orc = "-"
    mo = re.search(r"oracle=(\S+)", r.get("first_violation", ""))
    if mo:
        orc = mo.group(1)
    w = key(d)[1]
    st = stats.setdefault(w, [0, 0, 0])
    st[0] += 1
    st[1] += m.get("first_verdict") == "caught"
    st[2] += now.startswith("caught")
    print("| %s | %s | %s | %s | %s | %s |" % (name, cut(m["summary"], 140), cut(m["needs"], 100), m.get("first_verdict", "?"), now, orc))
print()
for w in sorted(stats):
    print("wave %d: %d changes, %d caught by the checks as they stood, %d caught now" % (w, *stats[w]))
