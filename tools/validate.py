#!/usr/bin/env python3
"""Validate MANIFEST.json and evidence/*.json against the schemas (needs jsonschema: run with python3-vt)."""
import json, sys, glob, jsonschema
ok = True
def v(path, schema):
    global ok
    try:
        jsonschema.validate(json.load(open(path)), json.load(open(schema)))
        print("ok   ", path)
    except Exception as e:
        ok = False
        print("FAIL ", path, str(e)[:400])
v("/verif/MANIFEST.json", "/root/.vp/MANIFEST.schema.json")
for p in sorted(glob.glob("/verif/evidence/*.json")):
    v(p, "/root/.vp/EVIDENCE.schema.json")
m = json.load(open("/verif/MANIFEST.json"))
ids = {json.loads(l)["id"] for l in open("/verif/properties.jsonl")}
claimed = {c["property_id"] for c in m["checks"]}
na = {n["property_id"] for n in m.get("not_applicable", [])}
if claimed & na or (claimed | na) != ids:
    ok = False
    print("FAIL  claimed/not_applicable do not partition the property list:", sorted(ids - claimed - na), sorted(claimed & na))
sys.exit(0 if ok else 1)
