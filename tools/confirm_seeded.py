#!/usr/bin/env python3
"""Confirm a candidate seeded change in a scratch worktree of /repo HEAD:
 (a) clean tree: demo passes; (b) patched: builds, pinned suite passes, demo fails.
 usage: confirm_seeded.py <candidate-dir> <demo-dir-in-repo> [<go test -run pattern>]"""
import json, os, shutil, subprocess, sys, tempfile
cand, demodir = sys.argv[1], sys.argv[2]
pat = sys.argv[3] if len(sys.argv) > 3 else "TestDemo"
env = dict(os.environ, GOFLAGS="-mod=mod", GOPROXY="off", GOSUMDB="off")
wt = tempfile.mkdtemp(prefix="confirm-", dir="/tmp")
os.rmdir(wt)
def sh(cmd, **kw):
    return subprocess.run(cmd, shell=True, cwd=kw.get("cwd", wt), env=env, stdout=subprocess.PIPE, stderr=subprocess.STDOUT, text=True)
subprocess.run(["git", "-C", "/repo", "worktree", "add", "--detach", wt, "HEAD"], check=True, stdout=subprocess.DEVNULL, stderr=subprocess.DEVNULL)
res = {}
try:
    demo = [f for f in os.listdir(cand) if f.startswith("demo") and f.endswith(".go")]
    for f in demo:
        shutil.copy(os.path.join(cand, f), os.path.join(wt, demodir, f if f.endswith("_test.go") else f))
    race = "-race " if "race" in open(os.path.join(cand, demo[0])).read()[:1500].lower() else ""
    r = sh("go test -vet=off -count=1 %s-run '%s' ./%s/" % (race, pat, demodir))
    res["clean_demo_passes"] = r.returncode == 0
    res["clean_out"] = r.stdout[-300:]
    a = sh("git apply %s" % os.path.join(cand, "patch.diff"))
    res["applies"] = a.returncode == 0
    if a.returncode != 0:
        res["apply_out"] = a.stdout[-300:]
    else:
        b = sh("go build ./...")
        res["builds"] = b.returncode == 0
        for f in demo:
            os.rename(os.path.join(wt, demodir, f), os.path.join(wt, f + ".hold"))
        s = sh("go test -vet=off -count=1 ./asntest/... ./authenticode/... ./efi/... ./efivar/... ./efivarfs/... ./pkcs7/...")
        res["suite_passes"] = s.returncode == 0
        if s.returncode != 0:
            res["suite_out"] = s.stdout[-600:]
        for f in demo:
            os.rename(os.path.join(wt, f + ".hold"), os.path.join(wt, demodir, f))
        r2 = sh("go test -vet=off -count=1 %s-run '%s' ./%s/" % (race, pat, demodir))
        res["patched_demo_fails"] = r2.returncode != 0
        res["patched_out"] = r2.stdout[-400:]
finally:
    subprocess.run(["git", "-C", "/repo", "worktree", "remove", "--force", wt], stdout=subprocess.DEVNULL, stderr=subprocess.DEVNULL)
ok = res.get("clean_demo_passes") and res.get("applies") and res.get("builds") and res.get("suite_passes") and res.get("patched_demo_fails")
res["confirmed"] = bool(ok)
print(json.dumps(res, indent=1))
sys.exit(0 if ok else 1)
