// yieldpass inserts scheduler yield points into a throw-away copy of the
// repository: at the entry of every function and at the head of every loop
// body of the packages whose read-only operations property C19 names. The
// shipped tree is never touched.
package main

import (
	"bytes"
	"fmt"
	"go/ast"
	"go/format"
	"go/parser"
	"go/token"
	"os"
	"path/filepath"
	"strconv"
	"strings"
)

var pkgs = []string{"authenticode", "pkcs7", "efi/signature", "efi/util", "efivarfs"}

const simyieldSrc = `// Package simyield is inserted by /verif/tools/yieldpass into a scratch copy only.
package simyield

import "runtime"

// Hook is set by the simulator while a scheduled run is in progress.
var Hook func(site string)

// BlockHook is called while a lock could not be taken: the scheduler has to
// let another client run (the holder is parked at a yield point).
var BlockHook func(site string)

func Y(site string) {
	if h := Hook; h != nil {
		h(site)
	}
}

func B(site string) {
	if h := BlockHook; h != nil {
		h(site)
		return
	}
	runtime.Gosched()
}
`

func main() {
	root := os.Args[1]
	if err := os.MkdirAll(filepath.Join(root, "simyield"), 0o755); err != nil {
		panic(err)
	}
	if err := os.WriteFile(filepath.Join(root, "simyield", "simyield.go"), []byte(simyieldSrc), 0o644); err != nil {
		panic(err)
	}
	total, files := 0, 0
	for _, p := range pkgs {
		dir := filepath.Join(root, p)
		ents, err := os.ReadDir(dir)
		if err != nil {
			panic(err)
		}
		for _, e := range ents {
			n := e.Name()
			if e.IsDir() || !strings.HasSuffix(n, ".go") || strings.HasSuffix(n, "_test.go") {
				continue
			}
			k, err := instrument(filepath.Join(dir, n), p)
			if err != nil {
				panic(fmt.Sprintf("%s/%s: %v", p, n, err))
			}
			if k > 0 {
				files++
			}
			total += k
		}
	}
	fmt.Printf("yieldpass: %d yield sites inserted in %d files of %v\n", total, files, pkgs)
}

func isLockLoop(f *ast.ForStmt) bool {
	if len(f.Body.List) != 1 {
		return false
	}
	es, ok := f.Body.List[0].(*ast.ExprStmt)
	if !ok {
		return false
	}
	c, ok := es.X.(*ast.CallExpr)
	if !ok {
		return false
	}
	sel, ok := c.Fun.(*ast.SelectorExpr)
	if !ok {
		return false
	}
	id, ok := sel.X.(*ast.Ident)
	return ok && id.Name == "simyield" && sel.Sel.Name == "B"
}

func call(site string) ast.Stmt {
	return &ast.ExprStmt{X: &ast.CallExpr{
		Fun:  &ast.SelectorExpr{X: ast.NewIdent("simyield"), Sel: ast.NewIdent("Y")},
		Args: []ast.Expr{&ast.BasicLit{Kind: token.STRING, Value: strconv.Quote(site)}},
	}}
}

// rewriteLocks turns `x.Lock()` / `x.RLock()` statements into cooperative
// acquisition: `for !x.TryLock() { simyield.B(site) }`, so that a client that
// waits for a lock held by a parked client hands the processor over instead of
// blocking the whole simulation.
func rewriteLocks(list []ast.Stmt, site string, n *int) {
	for i, st := range list {
		es, ok := st.(*ast.ExprStmt)
		if !ok {
			continue
		}
		call, ok := es.X.(*ast.CallExpr)
		if !ok || len(call.Args) != 0 {
			continue
		}
		sel, ok := call.Fun.(*ast.SelectorExpr)
		if !ok || (sel.Sel.Name != "Lock" && sel.Sel.Name != "RLock") {
			continue
		}
		try := "TryLock"
		if sel.Sel.Name == "RLock" {
			try = "TryRLock"
		}
		list[i] = &ast.ForStmt{
			Cond: &ast.UnaryExpr{Op: token.NOT, X: &ast.CallExpr{Fun: &ast.SelectorExpr{X: sel.X, Sel: ast.NewIdent(try)}}},
			Body: &ast.BlockStmt{List: []ast.Stmt{&ast.ExprStmt{X: &ast.CallExpr{
				Fun:  &ast.SelectorExpr{X: ast.NewIdent("simyield"), Sel: ast.NewIdent("B")},
				Args: []ast.Expr{&ast.BasicLit{Kind: token.STRING, Value: strconv.Quote(site + ":lock")}},
			}}}},
		}
		*n++
	}
}

func instrument(path, pkg string) (int, error) {
	fset := token.NewFileSet()
	f, err := parser.ParseFile(fset, path, nil, parser.ParseComments)
	if err != nil {
		return 0, err
	}
	n := 0
	for _, d := range f.Decls {
		fd, ok := d.(*ast.FuncDecl)
		if !ok || fd.Body == nil {
			continue
		}
		name := fd.Name.Name
		if fd.Recv != nil && len(fd.Recv.List) > 0 {
			var b bytes.Buffer
			format.Node(&b, fset, fd.Recv.List[0].Type)
			name = strings.TrimPrefix(b.String(), "*") + "." + name
		}
		site := pkg + "." + name
		// locks first (the loops this inserts must not get a yield of their own)
		ast.Inspect(fd.Body, func(nd ast.Node) bool {
			switch s := nd.(type) {
			case *ast.BlockStmt:
				rewriteLocks(s.List, site, &n)
			case *ast.CaseClause:
				rewriteLocks(s.Body, site, &n)
			case *ast.CommClause:
				rewriteLocks(s.Body, site, &n)
			}
			return true
		})
		ast.Inspect(fd.Body, func(nd ast.Node) bool {
			switch s := nd.(type) {
			case *ast.ForStmt:
				if isLockLoop(s) {
					return true
				}
				s.Body.List = append([]ast.Stmt{call(fmt.Sprintf("%s:loop@%d", site, fset.Position(s.Pos()).Line))}, s.Body.List...)
				n++
			case *ast.RangeStmt:
				s.Body.List = append([]ast.Stmt{call(fmt.Sprintf("%s:range@%d", site, fset.Position(s.Pos()).Line))}, s.Body.List...)
				n++
			}
			return true
		})
		fd.Body.List = append([]ast.Stmt{call(site)}, fd.Body.List...)
		n++
	}
	if n == 0 {
		return 0, nil
	}
	imp := &ast.GenDecl{Tok: token.IMPORT, Specs: []ast.Spec{&ast.ImportSpec{
		Name: ast.NewIdent("simyield"),
		Path: &ast.BasicLit{Kind: token.STRING, Value: strconv.Quote("github.com/foxboron/go-uefi/simyield")},
	}}}
	f.Decls = append([]ast.Decl{imp}, f.Decls...)
	var out bytes.Buffer
	if err := format.Node(&out, fset, f); err != nil {
		return 0, err
	}
	return n, os.WriteFile(path, out.Bytes(), 0o644)
}
