module verif/tools/yieldpass

go 1.26
