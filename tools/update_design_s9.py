#!/usr/bin/env python3
"""Rewrite the generated part of DESIGN.md section 9 (intro numbers + table) from seeded/*/meta.json,
seeded/RESULTS.json and benign/RESULTS.json. The prose bullets behind the table are hand-written and kept."""
import glob, json, os, re, subprocess
V = os.path.dirname(os.path.dirname(os.path.abspath(__file__)))
tab = subprocess.run(["python3", os.path.join(V, "tools", "gen_s9.py")], capture_output=True, text=True, check=True).stdout
table, stats = tab.split("\n\n", 1)
nseed = len(glob.glob(os.path.join(V, "seeded", "C*-w*-*")))
res = json.load(open(os.path.join(V, "seeded", "RESULTS.json")))
caught = sum(1 for r in res if r["status"].startswith("caught"))
byother = sum(1 for r in res if r["status"].startswith("caught-by"))
missed = [r["name"] for r in res if not r["status"].startswith("caught")]
ben = json.load(open(os.path.join(V, "benign", "RESULTS.json")))
nben = len(glob.glob(os.path.join(V, "benign", "b*")))
silent = sum(1 for r in ben if r["status"] == "silent")
waves = sorted({int(re.search(r"-w(\d+)-", os.path.basename(d)).group(1)) for d in glob.glob(os.path.join(V, "seeded", "C*-w*-*"))})
intro = f"""## 9. Seeded changes and what catches them

{len(waves)} waves of independent sub-agents (fresh context each; given only the text of one property, a scratch git
worktree of `/repo` under `/tmp/wt`, from wave 2 on the one-line summaries of the earlier changes for that property so as
not to repeat them, from wave 3 on hints at untried directions; nothing from `/verif`) were asked for changes that break the
property, still compile, still pass the 56 pinned tests, and need something specific to manifest. Every candidate was
confirmed by me in a scratch worktree with `tools/confirm_seeded.py` — (a) clean tree: the demonstration passes; (b) patched:
`go build ./...` succeeds, the pinned suite passes, the demonstration fails — before it was kept under
`/verif/seeded/<name>/` (`patch.diff`, `demo_test.go`, `meta.json`). Every candidate the sub-agents delivered was confirmed ({nseed} kept; a few
patches were rebased by hand after a later `fix:` commit touched their context, and re-confirmed). `./selftest sensitivity`
applies each patch to a scratch worktree of `/repo` HEAD (never to `/repo` itself), points the *quick* check of the property at
it (`VERIF_REPO`) and expects exit 1 with a `VIOLATION` line; the last full pass is in `seeded/RESULTS.json`.

Result, per wave ("caught by the checks as they stood" = the verdict of the first run after the wave came back; for wave 7
most of those first runs were *not* blind — I had read the summaries and strengthened the generators before running, and the
table says so; waves 6, 8, 9, 10 and 11 were run blind):

```
{stats.strip()}
```

Now {caught} of {nseed} are caught by the quick tier within its normal budget ({byother} of them by the check of the property
whose quantifier they really belong to — a fault sequence is C15's, a shared-object schedule is C19's; see the table);
not caught: {", ".join(missed) if missed else "none"} (C15-w2-3 and C15-w9-3 are accepted as outside the stated properties; the
wave-11 entry C09-w11-3 is an open miss, see the last bullet of the list below; C03-w6-2 was retired — fix e926725 made it harmless — and
lives under `seeded/retired/`).
"first" = verdict when the wave came back, "now" = current verdict. The {nben} behaviour-preserving edits under `/verif/benign`
(twelve written by me, {nben - 12} large restructurings by independent sub-agents who were asked for correct caches, locks, pools,
zero-copy plumbing and reorganised I/O paths) stay silent on every check they touch (`./selftest specificity`, {silent} check
runs, `benign/RESULTS.json`).

"""
p = os.path.join(V, "DESIGN.md")
s = open(p).read()
a = s.index("## 9. Seeded changes and what catches them")
b = s.index("What the misses taught, and what was strengthened")
s = s[:a] + intro + table.strip() + "\n\n" + s[b:]
open(p, "w").write(s)
print("section 9 rewritten: %d seeded, %d caught, %d benign, %d silent runs" % (nseed, caught, nben, silent))
