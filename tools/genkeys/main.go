// genkeys writes the fixed key/certificate pool used by every engine.
// Run once; the output under /verif/fixtures/keys is committed because key
// generation is neither fast nor replayable.
package main

import (
	"bytes"
	"crypto"
	"crypto/rand"
	"crypto/rsa"
	"crypto/sha256"
	"crypto/x509"
	"crypto/x509/pkix"
	"encoding/asn1"
	"encoding/pem"
	"fmt"
	"math/big"
	"os"
	"time"
)

type spec struct {
	bits   int
	cn     string
	serial string // hex
}

func main() {
	out := os.Args[1]
	specs := []spec{
		{2048, "sim A", "01"},
		{2048, "sim B", "02"},
		{3072, "sim C", "80f1e2d3c4b5a697"},     // high bit set: DER needs a leading zero
		{4096, "sim D", "00ff00ff00ff00ff00ff"}, // leading zeros in the source
		{2048, "sim A", "01"},                   // k4: same issuer AND serial as k0, different key
		{2048, "sim E", "02"},                   // k5: same serial as k1, different issuer
		{2048, "sim B", "03"},                   // k6: same issuer as k1, different serial
		{2048, "sim F with a rather long common name to change certificate length", "7f"},
	}
	for i, s := range specs {
		if _, err := os.Stat(fmt.Sprintf("%s/k%d.key.pem", out, i)); err == nil {
			continue // never regenerate an existing fixture
		}
		key, err := rsa.GenerateKey(rand.Reader, s.bits)
		if err != nil {
			panic(err)
		}
		serial, _ := new(big.Int).SetString(s.serial, 16)
		tmpl := &x509.Certificate{
			SerialNumber: serial,
			Subject:      pkix.Name{CommonName: s.cn, Organization: []string{"verif sim"}},
			NotBefore:    time.Date(1999, 1, 1, 0, 0, 0, 0, time.UTC),
			NotAfter:     time.Date(2099, 1, 1, 0, 0, 0, 0, time.UTC),
			KeyUsage:     x509.KeyUsageDigitalSignature,
			ExtKeyUsage:  []x509.ExtKeyUsage{x509.ExtKeyUsageCodeSigning},
		}
		der, err := x509.CreateCertificate(rand.Reader, tmpl, tmpl, &key.PublicKey, key)
		if err != nil {
			panic(err)
		}
		write(out, fmt.Sprint("k", i), key, der)
		fmt.Println(i, s.bits, s.cn, s.serial, len(der))
	}
	// k8, k9: leaf certificates issued by a separate CA (issuer != subject)
	if _, err := os.Stat(out + "/ca.key.pem"); err != nil {
		caKey, _ := rsa.GenerateKey(rand.Reader, 2048)
		caT := &x509.Certificate{
			SerialNumber: big.NewInt(0x0c0a), Subject: pkix.Name{CommonName: "sim CA", Organization: []string{"verif sim"}},
			NotBefore: time.Date(1999, 1, 1, 0, 0, 0, 0, time.UTC), NotAfter: time.Date(2099, 1, 1, 0, 0, 0, 0, time.UTC),
			IsCA: true, BasicConstraintsValid: true, KeyUsage: x509.KeyUsageCertSign,
		}
		caDER, err := x509.CreateCertificate(rand.Reader, caT, caT, &caKey.PublicKey, caKey)
		if err != nil {
			panic(err)
		}
		write(out, "ca", caKey, caDER)
		caCert, _ := x509.ParseCertificate(caDER)
		for i, serial := range []int64{0x1001, 0x1002} {
			key, _ := rsa.GenerateKey(rand.Reader, 2048)
			t := &x509.Certificate{
				SerialNumber: big.NewInt(serial), Subject: pkix.Name{CommonName: fmt.Sprintf("sim leaf %d", i), Organization: []string{"verif sim"}},
				NotBefore: time.Date(1999, 1, 1, 0, 0, 0, 0, time.UTC), NotAfter: time.Date(2099, 1, 1, 0, 0, 0, 0, time.UTC),
				KeyUsage: x509.KeyUsageDigitalSignature, ExtKeyUsage: []x509.ExtKeyUsage{x509.ExtKeyUsageCodeSigning},
			}
			der, err := x509.CreateCertificate(rand.Reader, t, caCert, &key.PublicKey, caKey)
			if err != nil {
				panic(err)
			}
			write(out, fmt.Sprint("k", 8+i), key, der)
			fmt.Println(8+i, "leaf of sim CA", len(der))
		}
	}
	extra(out)
	extra2(out)
	extra3(out)
	extra4(out)
	extra5(out)
	extra6(out)
}

// extra adds k10..k17 (leaves of the CA reusing k8's key, common names of 1..8 extra characters so that the
// certificate length — and with it the length of every signature blob — covers all residues modulo 8) and
// k18 (self-signed, with a 70000-byte private extension: SignedData larger than 65535 bytes).
func extra(out string) {
	if _, err := os.Stat(out + "/k10.key.pem"); err == nil {
		return
	}
	rd := func(n string) []byte {
		b, err := os.ReadFile(out + "/" + n)
		if err != nil {
			panic(err)
		}
		blk, _ := pem.Decode(b)
		return blk.Bytes
	}
	caKeyAny, err := x509.ParsePKCS8PrivateKey(rd("ca.key.pem"))
	if err != nil {
		panic(err)
	}
	caKey := caKeyAny.(*rsa.PrivateKey)
	caCert, err := x509.ParseCertificate(rd("ca.cert.pem"))
	if err != nil {
		panic(err)
	}
	k8Any, err := x509.ParsePKCS8PrivateKey(rd("k8.key.pem"))
	if err != nil {
		panic(err)
	}
	k8 := k8Any.(*rsa.PrivateKey)
	for i := 0; i < 8; i++ {
		t := &x509.Certificate{
			SerialNumber: big.NewInt(int64(0x2001 + i)), Subject: pkix.Name{CommonName: "sim leaf len " + "xxxxxxxx"[:i+1], Organization: []string{"verif sim"}},
			NotBefore: time.Date(1999, 1, 1, 0, 0, 0, 0, time.UTC), NotAfter: time.Date(2099, 1, 1, 0, 0, 0, 0, time.UTC),
			KeyUsage: x509.KeyUsageDigitalSignature, ExtKeyUsage: []x509.ExtKeyUsage{x509.ExtKeyUsageCodeSigning},
		}
		der, err := x509.CreateCertificate(rand.Reader, t, caCert, &k8.PublicKey, caKey)
		if err != nil {
			panic(err)
		}
		write(out, fmt.Sprint("k", 10+i), k8, der)
		fmt.Println(10+i, "leaf, cert length", len(der))
	}
	key, _ := rsa.GenerateKey(rand.Reader, 2048)
	big1 := make([]byte, 70000)
	for i := range big1 {
		big1[i] = byte(i * 7)
	}
	ext, _ := asn1.Marshal(big1)
	t := &x509.Certificate{
		SerialNumber: big.NewInt(0x3001), Subject: pkix.Name{CommonName: "sim huge", Organization: []string{"verif sim"}},
		NotBefore: time.Date(1999, 1, 1, 0, 0, 0, 0, time.UTC), NotAfter: time.Date(2099, 1, 1, 0, 0, 0, 0, time.UTC),
		KeyUsage:        x509.KeyUsageDigitalSignature,
		ExtraExtensions: []pkix.Extension{{Id: asn1.ObjectIdentifier{1, 3, 6, 1, 4, 1, 99999, 1}, Value: ext}},
	}
	der, err := x509.CreateCertificate(rand.Reader, t, t, &key.PublicKey, key)
	if err != nil {
		panic(err)
	}
	write(out, "k18", key, der)
	fmt.Println(18, "huge cert", len(der))
}

func write(out, name string, key *rsa.PrivateKey, der []byte) {
	kb, _ := x509.MarshalPKCS8PrivateKey(key)
	os.WriteFile(fmt.Sprintf("%s/%s.key.pem", out, name), pem.EncodeToMemory(&pem.Block{Type: "PRIVATE KEY", Bytes: kb}), 0o644)
	os.WriteFile(fmt.Sprintf("%s/%s.cert.pem", out, name), pem.EncodeToMemory(&pem.Block{Type: "CERTIFICATE", Bytes: der}), 0o644)
}

// extra2 adds k19 (self-signed) and k20 (leaf of the CA over k9's key) whose validity windows begin and end
// inside the simulated time span, so that a verifier which compares the signingTime attribute with the
// signer certificate's validity has edges to be strict about.
func extra2(out string) {
	if _, err := os.Stat(out + "/k19.key.pem"); err == nil {
		return
	}
	rd := func(n string) []byte {
		b, err := os.ReadFile(out + "/" + n)
		if err != nil {
			panic(err)
		}
		blk, _ := pem.Decode(b)
		return blk.Bytes
	}
	key, _ := rsa.GenerateKey(rand.Reader, 2048)
	t := &x509.Certificate{
		SerialNumber: big.NewInt(0x4001), Subject: pkix.Name{CommonName: "sim short validity", Organization: []string{"verif sim"}},
		NotBefore: time.Date(2030, 6, 15, 12, 0, 0, 0, time.UTC), NotAfter: time.Date(2031, 6, 15, 12, 0, 0, 0, time.UTC),
		KeyUsage: x509.KeyUsageDigitalSignature, ExtKeyUsage: []x509.ExtKeyUsage{x509.ExtKeyUsageCodeSigning},
	}
	der, err := x509.CreateCertificate(rand.Reader, t, t, &key.PublicKey, key)
	if err != nil {
		panic(err)
	}
	write(out, "k19", key, der)
	caKeyAny, err := x509.ParsePKCS8PrivateKey(rd("ca.key.pem"))
	if err != nil {
		panic(err)
	}
	caCert, err := x509.ParseCertificate(rd("ca.cert.pem"))
	if err != nil {
		panic(err)
	}
	k9Any, err := x509.ParsePKCS8PrivateKey(rd("k9.key.pem"))
	if err != nil {
		panic(err)
	}
	k9 := k9Any.(*rsa.PrivateKey)
	t2 := &x509.Certificate{
		SerialNumber: big.NewInt(0x4002), Subject: pkix.Name{CommonName: "sim leaf short validity", Organization: []string{"verif sim"}},
		NotBefore: time.Date(2020, 1, 1, 0, 0, 0, 0, time.UTC), NotAfter: time.Date(2020, 12, 31, 23, 59, 59, 0, time.UTC),
		KeyUsage: x509.KeyUsageDigitalSignature, ExtKeyUsage: []x509.ExtKeyUsage{x509.ExtKeyUsageCodeSigning},
	}
	der2, err := x509.CreateCertificate(rand.Reader, t2, caCert, &k9.PublicKey, caKeyAny.(*rsa.PrivateKey))
	if err != nil {
		panic(err)
	}
	write(out, "k20", k9, der2)
	fmt.Println(19, 20, "short validity", len(der), len(der2))
}

// extra3 adds k21..k23: self-signed certificates whose distinguished names are encoded the way other tools encode
// them, so that re-encoding the parsed name does not reproduce the bytes: UTF8String values with CN before O
// (OpenSSL's default), an emailAddress (IA5String) and a domainComponent attribute, and a multi-valued RDN.
func extra3(out string) {
	if _, err := os.Stat(out + "/k21.key.pem"); err == nil {
		return
	}
	type atv struct {
		Type  asn1.ObjectIdentifier
		Value asn1.RawValue
	}
	type rdn []atv
	str := func(tag int, s string) asn1.RawValue {
		return asn1.RawValue{Class: asn1.ClassUniversal, Tag: tag, Bytes: []byte(s)}
	}
	name := func(rdns ...rdn) []byte {
		var seq []byte
		for _, r := range rdns {
			var set []byte
			for _, a := range r {
				b, err := asn1.Marshal(a)
				if err != nil {
					panic(err)
				}
				set = append(set, b...)
			}
			b, err := asn1.Marshal(asn1.RawValue{Class: asn1.ClassUniversal, Tag: asn1.TagSet, IsCompound: true, Bytes: set})
			if err != nil {
				panic(err)
			}
			seq = append(seq, b...)
		}
		b, err := asn1.Marshal(asn1.RawValue{Class: asn1.ClassUniversal, Tag: asn1.TagSequence, IsCompound: true, Bytes: seq})
		if err != nil {
			panic(err)
		}
		return b
	}
	cn, o, ou := asn1.ObjectIdentifier{2, 5, 4, 3}, asn1.ObjectIdentifier{2, 5, 4, 10}, asn1.ObjectIdentifier{2, 5, 4, 11}
	email, dc := asn1.ObjectIdentifier{1, 2, 840, 113549, 1, 9, 1}, asn1.ObjectIdentifier{0, 9, 2342, 19200300, 100, 1, 25}
	names := [][]byte{
		name(rdn{{cn, str(asn1.TagUTF8String, "sim öpenssl style")}}, rdn{{o, str(asn1.TagUTF8String, "verif sim")}}),
		name(rdn{{dc, str(asn1.TagIA5String, "example")}}, rdn{{o, str(asn1.TagPrintableString, "verif sim")}}, rdn{{cn, str(asn1.TagPrintableString, "sim mail")}}, rdn{{email, str(asn1.TagIA5String, "keys@example.invalid")}}),
		name(rdn{{o, str(asn1.TagPrintableString, "verif sim")}}, rdn{{cn, str(asn1.TagPrintableString, "sim multi")}, {ou, str(asn1.TagPrintableString, "unit 7")}}),
	}
	for i, raw := range names {
		key, _ := rsa.GenerateKey(rand.Reader, 2048)
		t := &x509.Certificate{
			SerialNumber: big.NewInt(int64(0x5001 + i)), RawSubject: raw,
			NotBefore: time.Date(1999, 1, 1, 0, 0, 0, 0, time.UTC), NotAfter: time.Date(2099, 1, 1, 0, 0, 0, 0, time.UTC),
			KeyUsage: x509.KeyUsageDigitalSignature, ExtKeyUsage: []x509.ExtKeyUsage{x509.ExtKeyUsageCodeSigning},
		}
		der, err := x509.CreateCertificate(rand.Reader, t, t, &key.PublicKey, key)
		if err != nil {
			panic(err)
		}
		c, err := x509.ParseCertificate(der)
		if err != nil {
			panic(err)
		}
		re, _ := asn1.Marshal(c.Issuer.ToRDNSequence())
		fmt.Println(21+i, "foreign DN encoding; re-encoding the parsed issuer reproduces the bytes:", string(re) == string(c.RawIssuer), len(der))
		write(out, fmt.Sprint("k", 21+i), key, der)
	}
}

// extra4 adds k24 and k25: self-signed certificates over RSA keys whose modulus length is not a multiple of 8 bits
// (2049 and 2047 bits): byte-length arithmetic on signatures that rounds the wrong way shows only there.
func extra4(out string) {
	if _, err := os.Stat(out + "/k24.key.pem"); err == nil {
		return
	}
	for i, bits := range []int{2049, 2047} {
		key, err := rsa.GenerateKey(rand.Reader, bits)
		if err != nil {
			panic(err)
		}
		t := &x509.Certificate{
			SerialNumber: big.NewInt(int64(0x6001 + i)), Subject: pkix.Name{CommonName: fmt.Sprintf("sim odd modulus %d", bits), Organization: []string{"verif sim"}},
			NotBefore: time.Date(1999, 1, 1, 0, 0, 0, 0, time.UTC), NotAfter: time.Date(2099, 1, 1, 0, 0, 0, 0, time.UTC),
			KeyUsage: x509.KeyUsageDigitalSignature, ExtKeyUsage: []x509.ExtKeyUsage{x509.ExtKeyUsageCodeSigning},
		}
		der, err := x509.CreateCertificate(rand.Reader, t, t, &key.PublicKey, key)
		if err != nil {
			panic(err)
		}
		write(out, fmt.Sprint("k", 24+i), key, der)
		fmt.Println(24+i, "modulus bits", key.N.BitLen(), len(der))
	}
}

// extra5 adds k26 and k27: self-signed certificates that were themselves signed with SHA-384 and SHA-512 (the digest a
// certificate was issued with says nothing about the digest of signatures made with its key).
func extra5(out string) {
	if _, err := os.Stat(out + "/k26.key.pem"); err == nil {
		return
	}
	for i, alg := range []x509.SignatureAlgorithm{x509.SHA384WithRSA, x509.SHA512WithRSA} {
		key, err := rsa.GenerateKey(rand.Reader, 2048)
		if err != nil {
			panic(err)
		}
		t := &x509.Certificate{
			SerialNumber: big.NewInt(int64(0x7001 + i)), Subject: pkix.Name{CommonName: fmt.Sprintf("sim %v", alg), Organization: []string{"verif sim"}},
			NotBefore: time.Date(1999, 1, 1, 0, 0, 0, 0, time.UTC), NotAfter: time.Date(2099, 1, 1, 0, 0, 0, 0, time.UTC),
			KeyUsage: x509.KeyUsageDigitalSignature, ExtKeyUsage: []x509.ExtKeyUsage{x509.ExtKeyUsageCodeSigning}, SignatureAlgorithm: alg,
		}
		der, err := x509.CreateCertificate(rand.Reader, t, t, &key.PublicKey, key)
		if err != nil {
			panic(err)
		}
		write(out, fmt.Sprint("k", 26+i), key, der)
		fmt.Println(26+i, alg, len(der))
	}
}

// extra6 adds k28: a self-signed certificate whose serial number is 0 (an INTEGER of one zero octet). crypto/x509 does not
// issue such a certificate, so an ordinary one with serial 1 is patched in its TBSCertificate and signed again.
func extra6(out string) {
	if _, err := os.Stat(out + "/k28.key.pem"); err == nil {
		return
	}
	key, _ := rsa.GenerateKey(rand.Reader, 2048)
	t := &x509.Certificate{
		SerialNumber: big.NewInt(1), Subject: pkix.Name{CommonName: "sim serial zero", Organization: []string{"verif sim"}},
		NotBefore: time.Date(1999, 1, 1, 0, 0, 0, 0, time.UTC), NotAfter: time.Date(2099, 1, 1, 0, 0, 0, 0, time.UTC),
		KeyUsage: x509.KeyUsageDigitalSignature, ExtKeyUsage: []x509.ExtKeyUsage{x509.ExtKeyUsageCodeSigning},
	}
	der, err := x509.CreateCertificate(rand.Reader, t, t, &key.PublicKey, key)
	if err != nil {
		panic(err)
	}
	var outer asn1.RawValue
	if _, err := asn1.Unmarshal(der, &outer); err != nil {
		panic(err)
	}
	var tbs, alg, sig asn1.RawValue
	rest, _ := asn1.Unmarshal(outer.Bytes, &tbs)
	rest, _ = asn1.Unmarshal(rest, &alg)
	asn1.Unmarshal(rest, &sig)
	tb := append([]byte(nil), tbs.FullBytes...)
	i := bytes.Index(tb, []byte{0xa0, 0x03, 0x02, 0x01, 0x02, 0x02, 0x01, 0x01})
	if i < 0 {
		panic("serial not found")
	}
	tb[i+7] = 0x00
	h := sha256.Sum256(tb)
	sg, err := rsa.SignPKCS1v15(rand.Reader, key, crypto.SHA256, h[:])
	if err != nil {
		panic(err)
	}
	bs, _ := asn1.Marshal(asn1.BitString{Bytes: sg, BitLength: 8 * len(sg)})
	body := append(append(append([]byte(nil), tb...), alg.FullBytes...), bs...)
	final, _ := asn1.Marshal(asn1.RawValue{Class: asn1.ClassUniversal, Tag: asn1.TagSequence, IsCompound: true, Bytes: body})
	c, err := x509.ParseCertificate(final)
	if err != nil {
		panic(err)
	}
	if err := c.CheckSignature(c.SignatureAlgorithm, c.RawTBSCertificate, c.Signature); err != nil {
		panic(err)
	}
	write(out, "k28", key, final)
	fmt.Println(28, "serial", c.SerialNumber, len(final))
}
