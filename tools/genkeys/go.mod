module verif/tools/genkeys

go 1.26
