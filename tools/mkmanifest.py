#!/usr/bin/env python3
"""Regenerate /verif/MANIFEST.json from driver/propmeta.py."""
import json, os, sys
VERIF = os.path.dirname(os.path.dirname(os.path.abspath(__file__)))
sys.path.insert(0, os.path.join(VERIF, "driver"))
from propmeta import PROPS, NOT_APPLICABLE, ENGINE_KINDS

checks = []
for pid in sorted(PROPS):
    m = PROPS[pid]
    checks.append({
        "property_id": pid,
        "quick_cmd": "./check %s --tier quick" % pid,
        "thorough_cmd": "./check %s --tier thorough" % pid,
        "evidence_file": "/verif/evidence/%s.json" % pid,
        "replay_cmd_template": "./check %s --replay {path}" % pid,
        "engine": "+".join(sorted({e["name"] for e in m["engines"]})),
        "level_claimed": {"category": m["level"], "text": m["level_text"], "design_ref": m["design_ref"]},
        "level_note": m["level_note"],
        "technique": m["technique"],
    })
engines = []
for name, kind in sorted(ENGINE_KINDS.items()):
    serves = sorted(p for p in PROPS if any(e["name"] == name for e in PROPS[p]["engines"]))
    if serves:
        engines.append({"name": name, "path": "/verif/sim/eng_%s.go" % name.split(".")[0], "serves_properties": serves, "kind_free_text": kind})
man = {
    "version": 1,
    "setup_cmd": "./setup.sh",
    "hooks": {
        "guard": "verif",
        "enable": "no hook was needed: every seam is an interface (crypto.Signer, afero.Fs, io.ReaderAt), an assignable package variable (time.Local, efi/fs.Fs, attributes.Efivars), the go1.26 testing/synctest bubble, a supervised worker process, or (C19 only) go/ast-inserted yields in a throw-away copy of /repo; checks build /repo as it is",
        "baseline_off_cmd": "cd /repo && go test -json -vet=off -count=1 -timeout 25m ./asntest/... ./authenticode/... ./efi/... ./efivar/... ./efivarfs/... ./pkcs7/...",
        "source_commits": [],
        "add_only": True,
    },
    "engines": engines,
    "checks": checks,
    "notes": ("Technique family: deterministic simulation with fault injection. One integer (VERIF_SEED, default 20261001) decides every run; "
              "violations are minimised (ddmin over ops/faults/schedule) and written to /verif/replays/<id>-<seed>-<run>.json, replayed with "
              "`./check <id> --replay <file>`. Exit 2 = trouble of the machinery, never a violation. Known/fixed findings: /verif/known_findings.json. "
              "fix: commits in /repo are listed there and in DESIGN.md section 7."),
    "not_applicable": [{"property_id": k, "reason": v} for k, v in sorted(NOT_APPLICABLE.items()) if k not in PROPS],
}
json.dump(man, open(os.path.join(VERIF, "MANIFEST.json"), "w"), indent=1)
print("wrote MANIFEST.json: %d checks, %d not applicable" % (len(checks), len(man["not_applicable"])))
