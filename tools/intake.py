#!/usr/bin/env python3
"""Take in the candidates a sub-agent left under /tmp/wt/<PROP>-w<N>-out/<k>/: confirm each one in a scratch worktree
(tools/confirm_seeded.py), and install the confirmed ones as /verif/seeded/<PROP>-w<N>-<k>/.
usage: intake.py <PROP> <N>"""
import glob, json, os, shutil, subprocess, sys
V = os.path.dirname(os.path.dirname(os.path.abspath(__file__)))
prop, wave = sys.argv[1], sys.argv[2]
head = subprocess.run(["git", "-C", "/repo", "rev-parse", "--short", "HEAD"], capture_output=True, text=True).stdout.strip()
PKG = {"authenticode_test": "authenticode", "authenticode": "authenticode", "efivarfs_test": "efivarfs", "efivarfs": "efivarfs",
       "signature_test": "efi/signature", "signature": "efi/signature", "pkcs7_test": "pkcs7", "pkcs7": "pkcs7",
       "testfs_test": "efivarfs/testfs", "testfs": "efivarfs/testfs", "fswrapper_test": "efivarfs/fswrapper", "fswrapper": "efivarfs/fswrapper",
       "attributes_test": "efi/attributes", "attributes": "efi/attributes", "efi_test": "efi", "efi": "efi", "util_test": "efi/util", "util": "efi/util",
       "efivar_test": "efivar", "efivar": "efivar"}
for d in sorted(glob.glob("/tmp/wt/%s-w%s-out/[0-9]*" % (prop, wave))):
    k = os.path.basename(d)
    name = "%s-w%s-%s" % (prop, wave, k)
    demos = [f for f in os.listdir(d) if f.startswith("demo") and f.endswith(".go")]
    if not demos or not os.path.exists(os.path.join(d, "patch.diff")) or not os.path.exists(os.path.join(d, "meta.json")):
        print(name, "INCOMPLETE", os.listdir(d))
        continue
    pkg = [l for l in open(os.path.join(d, demos[0])) if l.startswith("package")][0].split()[1]
    dd = PKG.get(pkg)
    if dd is None:
        print(name, "UNKNOWN PACKAGE", pkg)
        continue
    p = subprocess.run([sys.executable, os.path.join(V, "tools", "confirm_seeded.py"), d, dd], capture_output=True, text=True)
    try:
        c = json.loads(p.stdout)
    except Exception:
        print(name, "CONFIRM-ERROR", p.stdout[-300:], p.stderr[-300:])
        continue
    if not c.get("confirmed"):
        print(name, "NOT CONFIRMED", json.dumps(c)[:600])
        continue
    dst = os.path.join(V, "seeded", name)
    os.makedirs(dst, exist_ok=True)
    shutil.copy(os.path.join(d, "patch.diff"), dst)
    for f in demos:
        shutil.copy(os.path.join(d, f), dst)
    m = json.load(open(os.path.join(d, "meta.json")))
    m["property"] = prop
    m["origin"] = "independent sub-agent, wave %s: given only the property text, the summaries of earlier waves to avoid, and a scratch worktree" % wave
    m["demo_dir"] = dd
    m["demo_cmd"] = "go test -vet=off -count=1 -run TestDemo ./%s/" % dd
    m["confirmed"] = {x: c[x] for x in ("clean_demo_passes", "applies", "builds", "suite_passes", "patched_demo_fails")}
    m["confirmed_with"] = "tools/confirm_seeded.py in a scratch worktree of /repo HEAD (%s)" % head
    json.dump(m, open(os.path.join(dst, "meta.json"), "w"), indent=1)
    print(name, "confirmed and installed")
