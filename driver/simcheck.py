#!/usr/bin/env python3
"""Driver of the deterministic-simulation checks for Foxboron/go-uefi.

  ./check <PROPERTY> [--tier quick|thorough] [--seed N] [--jobs N]
  ./check <PROPERTY> --replay FILE

Exit status: 0 the property held on everything explored (KNOWN-FINDING lines
may be printed), 1 with `VIOLATION property=<id> replay=<path>` lines, 2 for
trouble of the machinery itself (build failure, harness error, a violation that
does not reproduce under replay) -- never reported as a violation.
"""
import argparse, concurrent.futures, copy, hashlib, json, os, shutil, struct, subprocess, sys, tempfile, time

VERIF = os.path.dirname(os.path.dirname(os.path.abspath(__file__)))
REPO = os.environ.get("VERIF_REPO", "/repo")
sys.path.insert(0, os.path.join(VERIF, "driver"))
from propmeta import PROPS  # noqa: E402

GOENV = dict(os.environ, GOFLAGS="-mod=mod", GOPROXY="off", GOSUMDB="off", GOTOOLCHAIN="local",
             VERIF_ROOT=VERIF)
GO = shutil.which("go1.26.8") or "/opt/veriftools/go1.26.8/bin/go"
DEFAULT_SEED = 20261001


def log(*a):
    print(*a, file=sys.stderr, flush=True)


class Harness(Exception):
    pass


# --------------------------------------------------------------------- build

def build(scratch, variants):
    """Build the worker binary (and optional variants) from the current /repo tree."""
    src = os.path.join(scratch, "sim")
    shutil.copytree(os.path.join(VERIF, "sim"), src)
    if REPO != "/repo":
        # background soak runs work on a snapshot of the repository (VERIF_REPO); registered checks use /repo itself
        gm = open(os.path.join(src, "go.mod")).read().replace("=> /repo", "=> " + REPO)
        open(os.path.join(src, "go.mod"), "w").write(gm)
    bins = {}
    for v in variants:
        out = os.path.join(scratch, "sim-%s.test" % v)
        env = dict(GOENV)
        wd = src
        cmd = [GO, "test", "-c", "-o", out]
        if v == "race":
            cmd.insert(3, "-race")
        if v == "instr":
            # instrumented scratch copy of the *current* /repo tree with yield points
            wd = instrumented_copy(scratch, src)
            cmd[3:3] = ["-tags", "instr"]
        cmd.append(".")
        t0 = time.time()
        p = subprocess.run(cmd, cwd=wd, env=env, stdout=subprocess.PIPE, stderr=subprocess.STDOUT, text=True)
        if p.returncode != 0:
            raise Harness("build of variant %s failed:\n%s" % (v, p.stdout[-4000:]))
        log("[build] %s in %.1fs" % (v, time.time() - t0))
        bins[v] = out
    return bins


def instrumented_copy(scratch, simsrc):
    """Copy /repo, insert scheduler yield points with the go/ast pass, and
    return a copy of the harness module that is pointed at it."""
    repo2 = os.path.join(scratch, "repo-instr")
    subprocess.run(["rsync", "-a", "--exclude", ".git", "--exclude", "tests", REPO + "/", repo2 + "/"], check=True)
    tool = os.path.join(VERIF, "tools", "yieldpass")
    p = subprocess.run([GO, "run", ".", repo2], cwd=tool, env=GOENV, stdout=subprocess.PIPE, stderr=subprocess.STDOUT, text=True)
    if p.returncode != 0:
        raise Harness("yield instrumentation failed:\n" + p.stdout[-4000:])
    log("[instr] " + p.stdout.strip().splitlines()[-1])
    sim2 = os.path.join(scratch, "sim-instr")
    shutil.copytree(simsrc, sim2)
    gm = open(os.path.join(sim2, "go.mod")).read().replace("=> " + REPO, "=> " + repo2)
    open(os.path.join(sim2, "go.mod"), "w").write(gm)
    return sim2


# -------------------------------------------------------------------- worker

def run_worker(binary, cfg, timeout=None, extra_env=None, maxprocs="1"):
    env = dict(GOENV, VERIF_WORKER=json.dumps(cfg), GOMAXPROCS=maxprocs)
    if extra_env:
        env.update(extra_env)
    try:
        p = subprocess.run([binary, "-test.run", "^TestWorker$", "-test.timeout", "0"], env=env,
                           stdout=subprocess.PIPE, stderr=subprocess.PIPE, timeout=timeout,
                           cwd=os.path.dirname(binary))
        rc, out, err = p.returncode, p.stdout, p.stderr
    except subprocess.TimeoutExpired as e:
        rc, out, err = -9, e.stdout or b"", (e.stderr or b"") + b"\n[watchdog] worker timed out"
    lines = []
    for ln in out.decode("utf-8", "replace").splitlines():
        if ln.startswith("@@ "):
            try:
                lines.append(json.loads(ln[3:]))
            except ValueError:
                pass
    return rc, lines, err.decode("utf-8", "replace"), out.decode("utf-8", "replace")


def read_wal(path):
    try:
        b = open(path, "rb").read()
        return struct.unpack("<Q", b[:8])[0] if len(b) >= 8 else None
    except OSError:
        return None


def death_violation(rc, err, out):
    if rc == 4 and "HANG run=" in err:
        return {"oracle": "process.hang", "op_index": -1, "op_kind": "unknown",
                "detail": "the run did not finish: " + [l for l in err.splitlines() if "HANG run=" in l][-1].strip()}
    tail = (err.strip().splitlines() or out.strip().splitlines() or [""])[-6:]
    txt = " | ".join(t.strip() for t in tail)[-500:]
    if "DATA RACE" in err or "DATA RACE" in out:
        rep = [l.strip() for l in (err + out).splitlines() if l.strip()]
        i = next((k for k, l in enumerate(rep) if "DATA RACE" in l), 0)
        keep = [l for l in rep[i:i + 40] if not l.startswith("/") and not l.startswith("==")][:14]
        return {"oracle": "process.data_race", "op_index": -1, "op_kind": "unknown",
                "detail": "race detector: " + " | ".join(keep)[:900]}
    if "panic:" in err or "panic:" in out or "fatal error:" in err:
        oracle = "process.crash"
    else:
        oracle = "process.exit"
    return {"oracle": oracle, "op_index": -1, "op_kind": "unknown",
            "detail": "worker process terminated (status %s) inside the run: %s" % (rc, txt)}


def run_chunk(binary, engine, seed, tier, lo, hi, scratch, idx, maxprocs="1", hashlog=None, extra_env=None, hang_inconclusive=False):
    """Run runs [lo,hi); survive worker deaths. Returns (summaries, violations)."""
    sums, viols = [], []
    cur = lo
    part = 0
    while cur < hi:
        wal = os.path.join(scratch, "wal.%d.%d" % (idx, part))
        outp = os.path.join(scratch, "hs.%d.%d" % (idx, part))
        cfg = {"mode": "range", "engine": engine, "seed": seed, "tier": tier, "from": cur, "to": hi, "wal": wal, "out": outp}
        if hashlog:
            cfg["hashlog"] = "%s.%d.%d" % (hashlog, idx, part)
        rc, lines, err, out = run_worker(binary, cfg, timeout=6 * 3600, maxprocs=maxprocs, extra_env=extra_env)
        part += 1
        got_summary = False
        for ln in lines:
            if ln.get("t") == "violation":
                ln["proc_from"] = cur
                viols.append(ln)
            elif ln.get("t") == "summary":
                sums.append(ln)
                got_summary = True
        # (status 2 alone is not a harness error: it is also how the Go runtime ends a process whose goroutine panicked —
        # e.g. a goroutine the code under test started itself. The harness marks its own errors.)
        if "HARNESS-ERROR" in err or "sim.HarnessError" in err:
            raise Harness("worker reported a harness error:\n" + err[-3000:])
        if got_summary and rc == 0:
            break
        # the worker died inside a run
        died = read_wal(wal)
        if died is None or died < cur or died >= hi:
            raise Harness("worker died (status %s) and left no usable write-ahead record:\n%s\n%s" % (rc, err[-2000:], out[-2000:]))
        rcg, gl, gerr, _ = run_worker(binary, {"mode": "gen", "engine": engine, "seed": seed, "tier": tier, "from": died})
        tr = next((l["trace"] for l in gl if l.get("t") == "trace"), None)
        if tr is None:
            raise Harness("cannot regenerate trace of run %d: %s" % (died, gerr[-1000:]))
        v = death_violation(rc, err, out)
        probes = {"runs_lost_to_worker_death": max(0, died - cur)}
        if v["oracle"] == "process.hang" and hang_inconclusive:
            # under the cooperative scheduler a run can also hang because the code blocks on a primitive the
            # scheduler does not model (sync.Once, channels, ...): inconclusive, counted, never reported
            probes["inconclusive_hang_under_scheduler"] = 1
            log("[inconclusive] engine=%s run=%d hung under the cooperative scheduler (not reported)" % (engine, died))
        else:
            viols.append({"t": "violation", "run": died, "violation": v, "trace": tr, "loghash": "", "death": True})
        sums.append({"t": "summary", "from": cur, "to": died + 1, "runs": 1, "nontrivial": 0, "violations": 1, "steps": 0,
                     "faults": {}, "probes": probes, "samples": [], "files": [],
                     "sim_from": 0, "sim_to": 0})
        cur = died + 1
    return sums, viols


# ------------------------------------------------------------ replay / ddmin

def vclass(v):
    if v is None:
        return None
    return v["oracle"] + "/" + v.get("op_kind", "")


def replay_once(binary, trace, scratch, tag, showlog=False, maxprocs="1", extra_env=None, repeat=1):
    """Execute a trace in a fresh process. Returns (violation-or-None, loghash, event_log)."""
    path = os.path.join(scratch, "replay-%s.json" % tag)
    with open(path, "w") as f:
        json.dump(trace, f)
    wal = path + ".wal"
    rc, lines, err, out = run_worker(binary, {"mode": "replay", "engine": trace["engine"], "trace": path, "showlog": showlog, "wal": wal, "repeat": repeat},
                                     timeout=600, maxprocs=maxprocs, extra_env=extra_env)
    if "HARNESS-ERROR" in err or "sim.HarnessError" in err:
        raise Harness("harness error during replay:\n" + err[-3000:])
    for ln in lines:
        if ln.get("t") == "replay":
            return ln.get("violation"), ln.get("loghash", ""), ln.get("event_log")
    if rc == -9:
        return {"oracle": "process.hang", "op_index": -1, "op_kind": "unknown", "detail": "replay exceeded the watchdog"}, "", None
    return death_violation(rc, err, out), "", None


def ddmin_list(items, test):
    """Classic ddmin: smallest sublist (by dropping chunks) for which test() still holds."""
    n = 2
    while len(items) >= 1:
        if len(items) == 1:
            if test([]):
                items = []
            break
        chunk = max(1, len(items) // n)
        reduced = False
        for i in range(0, len(items), chunk):
            cand = items[:i] + items[i + chunk:]
            if test(cand):
                items = cand
                n = max(n - 1, 2)
                reduced = True
                break
        if not reduced:
            if chunk == 1:
                break
            n = min(len(items), n * 2)
    return items


def minimise(binary, trace, want, scratch, tag, budget=400, maxprocs="1", extra_env=None, deadline=None):
    """Shrink ops, faults and schedule while the same violation class persists. Bounded by a number of replays and by a
    wall-clock deadline (a violation that hangs costs a whole watchdog period per replay)."""
    calls = [0]
    best = copy.deepcopy(trace)
    orig = {k: len(trace.get(k) or []) for k in ("warmup", "ops", "faults", "schedule") if k != "warmup" or trace.get("warmup")}

    def holds(t):
        if calls[0] >= budget or (deadline is not None and time.time() > deadline):
            return False
        calls[0] += 1
        v, _, _ = replay_once(binary, t, scratch, "%s-m%d" % (tag, calls[0]), maxprocs=maxprocs, extra_env=extra_env)
        return vclass(v) == want

    progress = True
    while progress and calls[0] < budget and (deadline is None or time.time() <= deadline):
        progress = False
        for key in ("warmup", "faults", "ops", "schedule"):
            cur = best.get(key) or []
            if not cur:
                continue

            def test(cand, key=key):
                t = copy.deepcopy(best)
                t[key] = cand
                return holds(t)
            new = ddmin_list(list(cur), test)
            if len(new) < len(cur):
                best[key] = new
                progress = True
    best["minimised_from"] = orig
    return best, calls[0]


# -------------------------------------------------------------- known findings

def load_known():
    p = os.path.join(VERIF, "known_findings.json")
    if not os.path.exists(p):
        return []
    return [e for e in json.load(open(p)) if e.get("status") == "known"]


def lookup(trace, viol, key):
    if key == "oracle":
        return viol.get("oracle")
    if key == "op_kind":
        return viol.get("op_kind")
    if key.startswith("sig."):
        return (viol.get("sig") or {}).get(key[4:])
    if key.startswith("cfg."):
        return (trace.get("cfg") or {}).get(key[4:])
    if key.startswith("fault0."):
        fs = trace.get("faults") or []
        return fs[0].get(key[7:]) if fs else None
    if key.startswith("op0."):
        ops = trace.get("ops") or []
        return ops[0].get(key[4:]) if ops else None
    if key == "nops":
        return len(trace.get("ops") or [])
    return None


def match_known(prop, trace, viol, known):
    for e in known:
        if e.get("property") != prop:
            continue
        if all(lookup(trace, viol, k) == v for k, v in e.get("match", {}).items()):
            return e
    return None


def vkey(ln):
    v = ln["violation"]
    extra = ""
    if ln.get("death"):
        # a dead worker cannot say where it was: group by what it printed last, digits removed
        extra = "".join(ch for ch in v["detail"].split(":", 1)[-1] if not ch.isdigit())[-160:]
    return json.dumps([v["oracle"], v.get("op_kind"), v.get("sig") or {}, extra], sort_keys=True)


# --------------------------------------------------------------------- main

def merge_counts(binary, files):
    files = [f for f in files if os.path.exists(f) and os.path.getsize(f) > 0]
    if not files:
        return 0
    rc, lines, err, _ = run_worker(binary, {"mode": "merge", "files": files})
    for ln in lines:
        if ln.get("t") == "merge":
            return ln["distinct"]
    raise Harness("merge failed: " + err[-1000:])


def check_property(pid, tier, seed, jobs, scratch):
    meta = PROPS[pid]
    t0 = time.time()
    variants = sorted({e.get("variant", "plain") for e in meta["engines"]})
    bins = build(scratch, variants)
    known = load_known()
    all_sums, all_viols = [], []
    files = {"dkeys": [], "states": [], "scheds": []}
    per_engine = []
    for ei, eng in enumerate(meta["engines"]):
        binary = bins[eng.get("variant", "plain")]
        ename = eng["name"]
        rc, lines, err, _ = run_worker(binary, {"mode": "plan", "engine": ename, "seed": seed, "tier": tier}, timeout=1800, extra_env=eng.get("env"))
        if rc != 0 or not lines:
            raise Harness("plan failed for %s:\n%s" % (ename, err[-3000:]))
        total = lines[0]["total"]
        chunk = max(1, min(total // (jobs * 4) + 1, 200000))
        ranges = [(lo, min(lo + chunk, total)) for lo in range(0, total, chunk)]
        log("[%s] engine=%s tier=%s seed=%d runs=%d chunks=%d jobs=%d" % (pid, ename, tier, seed, total, len(ranges), jobs))
        te = time.time()
        sums, viols = [], []
        with concurrent.futures.ThreadPoolExecutor(max_workers=jobs) as ex:
            futs = [ex.submit(run_chunk, binary, ename, seed, tier, lo, hi, scratch, ei * 100000 + i, eng.get("gomaxprocs", "1"), None, eng.get("env"), bool(eng.get("scheduler")))
                    for i, (lo, hi) in enumerate(ranges)]
            for f in futs:
                s, v = f.result()
                sums += s
                viols += v
        for s in sums:
            for fn in s.get("files", []):
                for k in files:
                    if fn.endswith("." + k + ".u64"):
                        files[k].append(fn)
        for v in viols:
            v["_binary"] = binary
            v["_eng"] = eng
        all_sums += sums
        all_viols += viols
        per_engine.append({"engine": ename, "variant": eng.get("variant", "plain"), "env": eng.get("env") or {}, "runs": sum(s["runs"] for s in sums),
                           "wall_s": round(time.time() - te, 2)})

    evaluations = sum(s["runs"] for s in all_sums)
    nontrivial = sum(s["nontrivial"] for s in all_sums)
    anybin = bins[variants[0]]
    distinct = merge_counts(anybin, files["dkeys"])
    states = merge_counts(anybin, files["states"])
    scheds = merge_counts(anybin, files["scheds"])
    faults, probes = {}, {}
    for s in all_sums:
        for k, v in (s.get("faults") or {}).items():
            faults[k] = faults.get(k, 0) + v
        for k, v in (s.get("probes") or {}).items():
            probes[k] = probes.get(k, 0) + v
    samples = []
    for s in all_sums:
        for sm in s.get("samples") or []:
            if len(samples) < 4:
                samples.append(sm)
    sim_from = min([s["sim_from"] for s in all_sums if s.get("sim_from")] or [0])
    sim_to = max([s["sim_to"] for s in all_sums if s.get("sim_to")] or [0])

    # ---- violations: one representative per structural key, minimised and replayed
    reported, known_hits, unreproduced = [], [], []
    groups = {}
    for v in sorted(all_viols, key=lambda l: l["run"]):
        groups.setdefault(vkey(v), []).append(v)
    os.makedirs(os.path.join(VERIF, "replays"), exist_ok=True)
    # all violation groups of one check share a wall-clock budget for shrinking; groups that come after it is used up are
    # reported unminimised (they are still re-executed twice before they are reported)
    min_deadline = time.time() + (240 if tier == "quick" else 1200)
    for gi, (k, members) in enumerate(sorted(groups.items(), key=lambda kv: kv[1][0]["run"])):
        rep = members[0]
        binary, eng = rep["_binary"], rep["_eng"]
        tr = rep["trace"]
        want = vclass(rep["violation"])
        mp = eng.get("gomaxprocs", "1")
        xe = eng.get("env")
        if xe:
            tr["env"] = xe
        # the raw trace has to reproduce first
        v0, h0, _ = replay_once(binary, tr, scratch, "g%d-raw" % gi, maxprocs=mp, extra_env=xe)
        if eng.get("nondeterministic"):
            # free-running goroutines: the interleaving is not the simulator's to choose. Any violation under
            # re-execution confirms the trace; which oracle sees it first may differ from run to run.
            if v0 is None:
                for _ in range(int(eng.get("replay_attempts", 20))):
                    v0, h0, _ = replay_once(binary, tr, scratch, "g%d-raw" % gi, maxprocs=mp, extra_env=xe, repeat=50)
                    if v0 is not None:
                        break
            if v0 is not None:
                want = vclass(v0)
        if vclass(v0) != want:
            if False:
                pass
            if vclass(v0) != want and not eng.get("nondeterministic") and rep.get("proc_from") is not None and rep["run"] > rep["proc_from"]:
                # does the run depend on what earlier runs left behind in the process (library-global state)?
                tw = copy.deepcopy(tr)
                tw["warmup"] = list(range(rep["proc_from"], rep["run"]))
                vw, hw, _ = replay_once(binary, tw, scratch, "g%d-warm" % gi, maxprocs=mp, extra_env=xe)
                if vclass(vw) == want:
                    tr = tw
                    v0 = vw
                    rep["trace"] = tw
            if vclass(v0) != want:
                if eng.get("nondeterministic"):
                    # a race-detector report is sound even if the race does not recur: report it with the original text
                    mt = copy.deepcopy(tr)
                    mt["violation"] = rep["violation"]
                    mt["note"] = ("observation (race detector report or oracle verdict) of the original free-running execution; it did not recur in %d "
                                  "re-executions (free-running goroutines: the interleaving is not the simulator's to choose)" % (50 * int(eng.get("replay_attempts", 20))))
                    path = os.path.join(VERIF, "replays", "%s-%d-%s-%d-g%d.json" % (pid, seed, tr["engine"], rep["run"], gi))
                    with open(path, "w") as f:
                        json.dump(mt, f, indent=1)
                    kf = match_known(pid, mt, rep["violation"], known)
                    if kf:
                        known_hits.append((kf, path, len(members)))
                    else:
                        reported.append((path, rep["violation"], len(members)))
                    continue
                # identical trace, and the violation shows in some executions only? (code under test that is not a function of its inputs)
                hits = 0
                for k in range(12):
                    vk, _, _ = replay_once(binary, tr, scratch, "g%d-raw%d" % (gi, k), maxprocs=mp, extra_env=xe)
                    if vclass(vk) == want:
                        hits += 1
                if hits < 2:
                    unreproduced.append((rep, v0))
                    continue
                rep["flaky"] = hits
        if gi < 12 and not eng.get("nondeterministic") and not rep.get("flaky"):
            mt, ncalls = minimise(binary, tr, want, scratch, "g%d" % gi, budget=300 if tier == "quick" else 600, maxprocs=mp, extra_env=xe,
                                  deadline=min(min_deadline, time.time() + (90 if tier == "quick" else 300)))
        else:
            mt, ncalls = copy.deepcopy(tr), 0
        v1, h1, elog = replay_once(binary, mt, scratch, "g%d-final" % gi, showlog=True, maxprocs=mp, extra_env=xe)
        v2, h2, _ = replay_once(binary, mt, scratch, "g%d-final2" % gi, maxprocs=mp, extra_env=xe)
        if eng.get("nondeterministic") and v1 is None:
            v1, h1, elog = replay_once(binary, mt, scratch, "g%d-final" % gi, showlog=True, maxprocs=mp, extra_env=xe, repeat=200)
        if eng.get("nondeterministic") and v1 is not None:
            want = vclass(v1)
        # a run in which the Go runtime ordered part of the events (worker says so): same class twice, the logs may differ
        loose = bool((v1 or {}).get("nondet") or (rep["violation"] or {}).get("nondet"))
        # The same violation class in two fresh processes is what counts. When the two event logs differ although the trace
        # (operations, faults, schedule, clock) is identical, the code under test itself behaves differently from execution
        # to execution (iteration order of a map, say); the replay file says so.
        if vclass(v1) != want or (not eng.get("nondeterministic") and vclass(v2) != want):
            # minimised trace is not stable: fall back to the raw one
            mt = copy.deepcopy(tr)
            v1, h1, elog = replay_once(binary, mt, scratch, "g%d-final" % gi, showlog=True, maxprocs=mp, extra_env=xe)
            v2, h2, _ = replay_once(binary, mt, scratch, "g%d-final2" % gi, maxprocs=mp, extra_env=xe)
            if vclass(v1) != want or (not eng.get("nondeterministic") and vclass(v2) != want):
                # a violation that shows in some executions of one trace and not in others: try harder before giving up
                hits = 0
                for k in range(10):
                    vk, hk, ek = replay_once(binary, mt, scratch, "g%d-again%d" % (gi, k), showlog=True, maxprocs=mp, extra_env=xe)
                    if vclass(vk) == want:
                        hits += 1
                        v1, h1, elog = vk, hk, ek
                if hits < 2:
                    unreproduced.append((rep, v1))
                    continue
                h2 = ""
        unstable = (not eng.get("nondeterministic")) and (h1 != h2 or rep.get("flaky")) and not loose
        mt["violation"] = v1
        mt["event_log_sha256"] = h1
        mt["note"] = "minimised with %d replays; %d run(s) of this batch share this violation signature (first: run %d)" % (ncalls, len(members), rep["run"])
        if mt.get("warmup"):
            mt["note"] += ("; the violation does NOT occur when the trace runs alone in a fresh process: it needs the listed warm-up runs of the same batch "
                           "executed first in the same process, i.e. the code under test keeps process-global state")
        if unstable:
            mt["note"] += ("; identical trace, different event logs from execution to execution: the code under test does not behave the same way every "
                           "time it is given the same operations, faults, schedule and clock")
        if elog:
            mt["event_log"] = elog[-60:]
        kf = match_known(pid, mt, v1, known)
        name = "%s-%d-%s-%d-g%d.json" % (pid, seed, tr["engine"], rep["run"], gi)
        path = os.path.join(VERIF, "replays", name)
        with open(path, "w") as f:
            json.dump(mt, f, indent=1)
        if kf:
            known_hits.append((kf, path, len(members)))
        else:
            reported.append((path, v1, len(members)))

    wall = time.time() - t0
    cov = {
        "evaluations": evaluations,
        "distinct_nontrivial": distinct,
        "nontrivial_total": nontrivial,
        "rule": meta["rule"],
        "samples": samples,
        "seeds": [seed],
        "runs_per_hour": int(evaluations / max(wall, 1e-9) * 3600),
        "seeds_per_hour": round(3600 / max(wall, 1e-9), 2),
        "steps": sum(s.get("steps", 0) for s in all_sums),
        "faults_fired": faults,
        "probes": probes,
        "model_states": states,
        "distinct_schedules": scheds,
        "simulated_time": ({"from_unix": sim_from, "to_unix": sim_to, "span_s": sim_to - sim_from} if sim_to else
                           {"span_s": 0, "why": meta.get("no_sim_time", "the code under this property has no timers or deadlines")}),
        "components": meta["components"],
        "engines": per_engine,
        "known_findings_hit": [{"id": k["id"], "replay": p, "runs": n} for k, p, n in known_hits],
        "violation_replays": [p for p, _, _ in reported],
        "unreproduced": len(unreproduced),
    }
    if meta.get("exhaustive"):
        cov["exhaustive"] = bool(meta["exhaustive"](tier))
        cov["exhaustive_scope"] = meta.get("exhaustive_scope", "")
    ev = {"property_id": pid, "tier": tier, "seed": seed, "level": meta["level"], "coverage": cov,
          "assumptions": meta["assumptions"], "wall_s": round(wall, 2), "violations": len(reported)}
    os.makedirs(os.path.join(VERIF, "evidence"), exist_ok=True)
    with open(os.path.join(VERIF, "evidence", pid + ".json"), "w") as f:
        json.dump(ev, f, indent=1)

    for kf, path, n in known_hits:
        print("KNOWN-FINDING: property=%s %s [%s; %d run(s); replay=%s]" % (pid, kf["what"], kf["id"], n, path))
    for path, v, n in reported:
        print("VIOLATION property=%s replay=%s" % (pid, path))
        print("  oracle=%s op=%s runs=%d: %s" % (v["oracle"], v.get("op_kind"), n, v["detail"][:300].replace("\n", " ")))
    print("[%s] tier=%s seed=%d runs=%d nontrivial=%d distinct=%d states=%d schedules=%d violations=%d known=%d wall=%.1fs" % (
        pid, tier, seed, evaluations, nontrivial, distinct, states, scheds, len(reported), len(known_hits), wall))
    if unreproduced:
        for rep, v in unreproduced[:5]:
            log("UNREPRODUCED run=%d first=%s replay=%s" % (rep["run"], vclass(rep["violation"]), vclass(v)))
        if not reported:
            log("a violation did not reproduce under replay: the machinery is at fault (exit 2)")
            return 2
        log("%d observation(s) did not reproduce under replay and are not reported; the reported violation(s) did" % len(unreproduced))
    return 1 if reported else 0


def do_replay(pid, path, scratch):
    trace = json.load(open(path))
    meta = PROPS[pid]
    eng = next((e for e in meta["engines"] if e["name"] == trace["engine"]), meta["engines"][0])
    bins = build(scratch, [eng.get("variant", "plain")])
    binary = bins[eng.get("variant", "plain")]
    attempts = int(eng.get("replay_attempts", 20)) if eng.get("nondeterministic") else 1
    v = None
    for _ in range(attempts):
        v, h, elog = replay_once(binary, trace, scratch, "cli", showlog=True, maxprocs=eng.get("gomaxprocs", "1"), extra_env=trace.get("env"),
                                 repeat=50 if eng.get("nondeterministic") else 1)
        if v is not None:
            break
    for ln in elog or []:
        print("  | " + ln)
    print("event_log_sha256=%s (recorded %s)" % (h, trace.get("event_log_sha256", "-")))
    if v is None:
        print("replay: no violation")
        return 0
    kf = match_known(pid, trace, v, load_known())
    if kf:
        print("KNOWN-FINDING: property=%s %s [%s]" % (pid, kf["what"], kf["id"]))
        return 0
    print("VIOLATION property=%s replay=%s" % (pid, os.path.abspath(path)))
    print("  oracle=%s op=%s: %s" % (v["oracle"], v.get("op_kind"), v["detail"][:400]))
    return 1


def main():
    ap = argparse.ArgumentParser()
    ap.add_argument("property")
    ap.add_argument("--tier", default=os.environ.get("VERIF_TIER", "quick"), choices=["quick", "thorough"])
    ap.add_argument("--seed", type=int, default=None)
    ap.add_argument("--jobs", type=int, default=os.cpu_count() or 4)
    ap.add_argument("--replay")
    ap.add_argument("--keep", action="store_true", help="keep the scratch directory")
    a = ap.parse_args()
    if a.property not in PROPS:
        log("unknown or unclaimed property %s (claimed: %s)" % (a.property, ", ".join(sorted(PROPS))))
        return 2
    seed = a.seed
    if seed is None:
        try:
            seed = int(os.environ.get("VERIF_SEED", DEFAULT_SEED))
        except ValueError:
            seed = DEFAULT_SEED
    scratch = tempfile.mkdtemp(prefix="verif-%s-" % a.property)
    try:
        if a.replay:
            return do_replay(a.property, a.replay, scratch)
        return check_property(a.property, a.tier, seed, a.jobs, scratch)
    except Harness as e:
        log("HARNESS-ERROR: %s" % e)
        return 2
    finally:
        if not a.keep:
            shutil.rmtree(scratch, ignore_errors=True)


if __name__ == "__main__":
    sys.exit(main())
