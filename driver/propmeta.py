"""Per-property metadata of the checks: engines, evidence wording, trusted base."""

REAL = ("every package of github.com/foxboron/go-uefi outside cmd/ and tests/ (current /repo tree, unmodified), "
        "Go standard library (debug/pe, crypto/*, encoding/asn1), x/crypto/cryptobyte, afero.MemMapFs as byte store")

COMMON_ASSUMPTIONS = [
    "sampling, not proof: a clean batch is evidence over the explored cases only",
    "checks are built with go1.26.8 (testing/synctest); the pinned suite runs under go1.23.5 -- standard-library corner cases may differ",
    "reference models in /verif/sim/ref*.go are trusted (written from the specifications, cross-checked on the repository's third-party fixtures)",
]

PROPS = {
    "C15": {
        "engines": [{"name": "faultseq"}],
        "level": "fault_enumeration",
        "rule": ("Operation instances (sign blob/image/variable, write variable on both APIs, signed update, read variable on both APIs and "
                 "typed accessors, parse/hash/sign/verify image on fixtures and seeded generated images) are first run fault-free with "
                 "counting seams to record the dependency-call sequence; then one case per (position k, fault kind[, byte count]) for "
                 "EVERY position and every kind legal for that call (err; partial_err/short_nil with 1, 2, len-1 bytes; early_eof), plus "
                 "seeded multi-fault and persistent (device gone) sequences. A case is non-trivial when an injected fault actually fired "
                 "inside the operation; distinct = distinct (instance, fired fault list)."),
        "exhaustive": lambda tier: True,
        "exhaustive_scope": "single-fault space: every position of every instance's recorded dependency-call sequence x every legal kind; multi-fault sequences are sampled",
        "components": {"real": REAL, "stub": "simsigner (crypto.Signer), simfs (afero.Fs/afero.File recorder+injector), simreader (io.ReaderAt), synctest fake clock, supervised worker process as crash observer"},
        "assumptions": COMMON_ASSUMPTIONS + [
            "EOF-typed faults of the image reader are excluded (indistinguishable from a shorter file)",
            "efi/efi.go top-level Get* helpers are not exercised (they deliberately map absent/EOF to an empty database)",
            "the immutable-flag ioctl path talks to the kernel directly and is outside the simulated world"],
    },
}
