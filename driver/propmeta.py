"""Per-property metadata of the checks: engines, evidence wording, trusted base."""

REAL = ("every package of github.com/foxboron/go-uefi outside cmd/ and tests/ (current /repo tree, unmodified), "
        "Go standard library (debug/pe, crypto/*, encoding/asn1), x/crypto/cryptobyte, afero.MemMapFs as byte store")

COMMON_ASSUMPTIONS = [
    "sampling, not proof: a clean batch is evidence over the explored cases only",
    "checks are built with go1.26.8 (testing/synctest); the pinned suite runs under go1.23.5 -- standard-library corner cases may differ",
    "reference models in /verif/sim/ref*.go are trusted (written from the specifications, cross-checked on the repository's third-party fixtures)",
]

PROPS = {
    "C19": {
        "engines": [{"name": "sched"},
                    {"name": "sched_instr", "variant": "instr", "scheduler": True},
                    {"name": "sched_race", "variant": "race", "gomaxprocs": "2", "env": {"GORACE": "halt_on_error=1"}, "nondeterministic": True, "replay_attempts": 20},
                    {"name": "sched_race", "variant": "race", "gomaxprocs": "4", "env": {"GORACE": "halt_on_error=1"}, "nondeterministic": True, "replay_attempts": 20},
                    {"name": "sched_race", "variant": "race", "gomaxprocs": "16", "env": {"GORACE": "halt_on_error=1"}, "nondeterministic": True, "replay_attempts": 20}],
        "level": "exploration",
        "technique": "seeded cooperative scheduler over real goroutines parked at yield points (io.ReaderAt seam; go/ast-inserted yields in a scratch copy), sequential repetition histories with a reflective deep snapshot of the object, plus free-running goroutines under the Go race detector",
        "design_ref": "DESIGN.md section 3 (C19), 2.3 (sched)",
        "level_text": ("The quantifier is over schedules and repetition orders. Mode 1 runs seeded sequences with repetition on one object and compares every result with the first and a deep snapshot "
                       "(unexported fields, buffer cursors) with the initial one. Mode 2 serialises 2-16 client goroutines: exactly one runs, the processor changes hands only at yield points, and the "
                       "switch list (PCT-style few switches, dense, bursts) is drawn from the seed, logged, shrunk and replayed exactly; the instrumented variant adds a yield at every function entry "
                       "and loop head of authenticode, pkcs7, efi/signature, efi/util and efivarfs. Mode 3 lets the same clients run freely under -race at GOMAXPROCS 2/4/16, because the serialising "
                       "scheduler orders all accesses and would hide data races from the detector. Exploration: schedules are sampled."),
        "level_note": ("Trusted: the scheduler (hand-off over channels), deepDump (reflect+unsafe), the Go race detector (sound, not complete). Mode 3 is monitored real concurrency, not simulation: "
                       "its interleaving is not chosen by the seed and its replay re-runs the same assignment up to 20 times; results-equality checks in mode 3 are deterministic."),
        "rule": ("Objects: a signed image parsed from a simulated medium (pegen layout or fixture, 1-2 signers), a signature database built through the API (3 variants) or decoded from a stream, a signature list, "
                 "a signed-update value with its descriptor, a parsed PKCS7 and a parsed Authenticode object (each tied to its own copy of the input bytes). "
                 "Ops: Hash/Bytes/Open/Signatures/Verify(signer)/Verify(other); Bytes/Marshal/BytesExists(hit,miss)/SigDataExists/Exists; list Bytes/Exists/ExistsInList/CmpHeader; Marshal/Bytes/descriptor Marshal/Verify; "
                 "PKCS7 Verify/HasCertificate; Authenticode.Verify; Hash with SHA-1/SHA-256/SHA-512; a database with a hand-assembled list around a PEM certificate; signed updates with empty, 5-byte and 40-byte payloads. "
                 "Buffers handed to Marshal are overwritten and reused by the harness afterwards; results the caller keeps are compared with a copy taken when they were returned; every operation kind is first called on a fresh object (baseline) "
                 "and once on the object under test before the snapshot is taken. "
                 "Images may be signed by another tool first and may end in a non-Authenticode entry; bystander objects (a twin, a different image) must be unaffected; one interleaved run in three starts on a cold object; "
                 "a client that blocks in a primitive the scheduler does not own hands the processor over (deadlock is a violation), goroutines started by the code under test are not scheduled; "
                 "Marshal destinations are zero buffers, pre-sized or reused buffers, or buffers holding the caller's own prefix; one image medium in three is seekable; a database variant has lists of one type that are not adjacent; "
                 "one call in four overwrites the memory it was handed back (results are the caller's); one sequential image run in four has a single failing read (the call it hits is not judged, all others are); sequential runs on signed updates run under a moving simulated clock. "
                 "Non-trivial: mode 1 an operation repeated at least twice; mode 2 at least two clients and one context switch; mode 3 at least two clients. Distinct = distinct event-log hash; "
                 "distinct_schedules = distinct effective context-switch lists."),
        "exhaustive": lambda tier: False,
        "components": {"real": REAL + "; for the instrumented variant the same tree with inserted simyield.Y() calls (no other change)", "stub": "simreader (image medium, yield point), seeded scheduler, synctest clock for object construction, race detector runtime (mode 3)"},
        "assumptions": COMMON_ASSUMPTIONS + ["the race detector reports only races that occur in the executions it observes"],
    },
    "C03": {
        "engines": [{"name": "signhist"}],
        "level": "exploration",
        "technique": "seeded signing histories (sign / re-sign / serialise-and-reparse / verify) on generated PE32/PE32+ layouts under a simulated clock, judged after every step by an independent PE walker, spec-transcribed Authenticode hash and independent CMS verifier; key pool with colliding issuer/serial",
        "design_ref": "DESIGN.md section 3 (C03), 2.4 (refpe, refcms)",
        "level_text": ("The quantifier is over histories of a stateful object whose durable form is Bytes(); serialise-and-reparse is this library's restart and the produced bytes depend on the clock "
                       "(signingTime). Each run draws a layout (section count/order, zero-size sections, gaps, trailing data, length mod 8, e_lfanew, SizeOfHeaders slack, directory count) or a "
                       "repository fixture (incl. sbsign-signed ones), a simulated instant and 1-8 operations; after every step the output bytes are re-read by code that shares nothing with the "
                       "library. Exploration: layouts and histories are sampled."),
        "level_note": ("Trusted: refpe (hand-written header walker + hash steps 1-15 with the literal SUM_OF_BYTES_HASHED rule, cross-checked against the four digests pinned in the repository's tests), "
                       "refcms, pegen. Content of inter-entry padding and the position of nothing else is constrained. Verify for a non-signer may return false with or without an error."),
        "rule": ("Per run: image = pegen layout (11 of 12) or fixture; instant; key subset incl. the issuer+serial collision pair; ops Sign(k) / Reparse / ReparseViaOpen / Verify(k) / Hash / Signatures. "
                 "One run in seven starts from an image another tool signed (refCMSForeign: extra authenticated attributes, foreign name encodings, padding counted in dwLength or non-zero filler); one in five keeps a second parsed image alive beside the history and re-checks it after every step; "
                 "one layout in five has a boundary of the hashed ranges on a round offset (512 B - 64 KiB); the image is parsed from the simulated medium, a bytes.Reader (fresh or already read from) or a SectionReader inside a larger file; "
                 "Sign may go through a signing device with seeded latency, and SignBoth signs this image and the second one from two clients under the scheduler (the device is the yield point). Non-trivial: at least one Sign followed by a reparse. Distinct = distinct event-log hash; model states = distinct (signer sequence, length mod 8)."),
        "exhaustive": lambda tier: False,
        "components": {"real": REAL, "stub": "synctest fake clock, simreader as image medium, fixed key pool"},
        "assumptions": COMMON_ASSUMPTIONS + ["RSA PKCS#1 v1.5 signing in Go is deterministic, so produced bytes are a function of the seed"],
    },
    "C06": {
        "engines": [{"name": "varsign"},
                    {"name": "varsign_tz", "env": {"TZ": "Asia/Tokyo"}},
                    {"name": "varsign_tz", "env": {"TZ": "America/St_Johns"}},
                    {"name": "varsign_tz", "env": {"TZ": "UTC"}},
                    {"name": "varsign_race", "variant": "race", "gomaxprocs": "4", "env": {"GORACE": "halt_on_error=1"}, "nondeterministic": True, "replay_attempts": 20}],
        "level": "exploration",
        "technique": "simulated clock (go1.26 testing/synctest bubble advanced to a seeded instant) x simulated process time zone (time.Local assignment and TZ environment), byte-exact layout oracle and independent CMS verification of the detached signature; seeded interleaving of 2-3 signing callers at the signer/filesystem seams, plus free-running signers under the Go race detector",
        "design_ref": "DESIGN.md section 3 (C06), 2.3 (simclock)",
        "level_text": ("'The timestamp is the current time in UTC' is a statement about the clock and the process configuration, neither of which a test can vary. The engine owns both: "
                       "every run sets the fake clock to a seeded instant (2000-2049, mass on second/minute/hour/day/month/year/leap-day rollovers and DST windows) and the zone to one of 42 "
                       "configurations (fixed offsets -12:00..+14:00 incl. :30/:45, IANA zones with DST), and checks the produced bytes field by field; the SignedData is verified by an "
                       "independent reader over the rebuilt buffer. Exploration: instants, zones, names, GUIDs, masks, payloads and keys are sampled."),
        "level_note": ("Trusted: refcms (encoding/asn1 + crypto/rsa, written from RFC 2315/5652), the synctest fake clock, time/tzdata. Instants stop at 2049-12-31 (UTCTime limit of the "
                       "signingTime attribute, DESIGN.md section 6). The additionally returned *EFIVariableAuthentication2 is not part of the statement and not asserted on."),
        "rule": ("Per run: zone, instant, variable (predefined authenticated / any predefined / generated ASCII name 1-64, GUID, mask incl. APPEND_WRITE), payload (empty database, hash lists, "
                 "certificate lists, raw bytes 0-1000), pool key (RSA 2048/3072/4096; self-signed and CA-issued certificates of 19 kinds incl. a 70 KB one), API (SignEFIVariable or WriteSignedUpdate through the "
                 "simulated filesystem), 1-4 updates per run that stay alive to the end, seeded signer latency (simulated time passes inside Sign), optionally 2-3 interleaved signing goroutines; "
                 "two signer certificates with validity windows inside the simulated time span and the clock 1 s - 14 h inside an edge (a signingTime attribute must then lie inside the window: time-strict verifiers); "
                 "the caller changes its payload object after the call; payloads incl. generic well-formed databases (0-5 lists, empty lists anywhere), library *SignatureDatabase objects and a type whose Bytes() is not its wire form; "
                 "hash databases whose first list's size field is out of step; a signer certificate with serial number 0; vendor variables with well-known names; the signer may refuse 1-8 requests (also with a temporary error) inside a sequence; instants within an hour of a clock change of the zone; keys of 2047/2049 bits, certificates issued with SHA-384/512 and with foreign name encodings; "
                 "one run in eight first verifies a foreign SHA-384/512 SignedData in the same process. Every run is non-trivial "
                 "(at least one signed update produced and judged); distinct = distinct event-log hash. A second engine runs the same generator with the zone taken from the TZ environment variable of the worker."),
        "exhaustive": lambda tier: False,
        "components": {"real": REAL, "stub": "synctest fake clock, time.Local / TZ zone configuration, simfs recorder (WriteSignedUpdate path)"},
        "assumptions": COMMON_ASSUMPTIONS,
    },
    "C09": {
        "engines": [{"name": "dbhist"}],
        "level": "exploration",
        "technique": "seeded edit histories (append/remove/queries/append-list/encode-decode restart) on the real SignatureDatabase against an ordered-entry reference model and an independent EFI_SIGNATURE_LIST reader, swarm-selected universe per run",
        "design_ref": "DESIGN.md section 3 (C09)",
        "level_text": ("The listed defects need particular sequences, not particular inputs; the engine samples histories of 1-40 operations over a deliberately small universe "
                       "(5 signature types incl. valid-but-undecodable and unknown, 3 owners, 17 data values incl. wrong-size hashes, DER/PEM certificates of equal and different "
                       "length and PEM with text before/behind the armour) so that duplicates, removals from the middle and emptied lists are frequent, and judges every step against the abstract entry sequence; "
                       "encode->decode is the restart. Exploration: histories are sampled."),
        "level_note": ("Trusted: the abstract model (ordered entries), refesl. The position of an appended entry, which of two equal-header lists receives it, removal/query by PEM form and "
                       "Exists() across split lists are accepted either way because the statement does not fix them. A fresh valid append that fails without changing anything is counted, not flagged."),
        "rule": ("Per run a swarm-selected subset of types/owners/operation kinds; start from empty, a repository fixture stream or a generated stream; 1-40 operations "
                 "(Append, AppendSignature, Remove, RemoveSignature, BytesExists, SigDataExists, Exists, AppendList, AppendDatabase with the source kept alive, Restart through a caller buffer that is reused or into the live database, "
                 "Swap = the history continues on a database that was merged into this one; one run in fifteen is a long grow-and-shrink history of one list of 10-40 entries; "
                 "restarts also decode the encoded database followed by a list without entries; a third of the runs use owner GUIDs that differ in one field only; restarts also through a reader that delivers 1-13 bytes per call; an encoding kept from an earlier step must stay what it was; both list-level append entry points; "
                 "lists built through the list-level API incl. removes, list restart and lists with a SignatureHeader). "
                 "Non-trivial: at least two successful mutations and a non-empty view at some step. Distinct = distinct event-log hash; model states = distinct structural snapshots of the database."),
        "exhaustive": lambda tier: False,
        "components": {"real": REAL, "stub": "none besides the reference model: the property has no I/O; restart = Bytes() -> ReadSignatureDatabase"},
        "assumptions": COMMON_ASSUMPTIONS,
    },
    "C12": {
        "engines": [{"name": "varstore"}],
        "level": "exploration",
        "technique": "seeded write/read histories on the real testfs store inside a synctest bubble, step-by-step register reference model plus porcupine over the recorded history; seeded faults of the byte store underneath in a separate share of the runs (acknowledged writes must read back exactly); worker process as crash observer",
        "design_ref": "DESIGN.md section 3 (C12)",
        "level_text": ("Register semantics is a property of histories; the engine samples histories of 2-30 plain and signed writes and reads over 2-5 variables with a small "
                       "per-run value universe (values grow, shrink to empty and repeat), from empty and pre-populated stores, and compares every read with a per-variable "
                       "register model; the recorded history is re-checked by porcupine. Exploration: histories are sampled, not enumerated."),
        "level_note": "Trusted: the register model (a map), refesl value builders, porcupine v1.3.0. APPEND_WRITE is not used (the statement is about plain and signed writes). Reads of never-written variables are not judged.",
        "rule": ("Per run: 1-3 of PK/KEK/db/dbx, optionally an ordinary predefined variable and a generated one; values from a small universe (hash databases of 0-9 entries, "
                 "certificate databases, multi-list databases, databases ending in a header-only list, generic well-formed databases of 0-5 lists with empty lists anywhere, raw bytes of 0-400 bytes), optionally a second variable with the same name under another GUID; ops WriteVar / WriteSignedUpdate / "
                 "WriteBlob (the same Marshallable object reused) / GetVar / GetVarInto (one destination object reused) / GetVarWithAttributes / typed Get* / Reopen; stores pre-populated with extra attribute bits; "
                 "values that begin with their variable's own attribute mask; one run in three lets simulated time pass between operations (starting just before a time field gains a digit); typed reads compare the decoded structure, not only the bytes; plain writes of values that only begin like an authentication descriptor; variable definitions rebuilt by the caller; a second store alive in the process; "
                 "in one run of five the byte store underneath fails at 1-4 seeded calls (a write that reports the failure leaves the variable indeterminate until the next acknowledged write, a failing read is not judged, every acknowledged write is read back exactly). Non-trivial: a read of a "
                 "variable that has been written at least twice. Distinct = distinct event-log hash."),
        "exhaustive": lambda tier: False,
        "components": {"real": REAL + "; efivarfs/testfs as shipped (its own afero.MemMapFs)", "stub": "synctest fake clock (signing time, descriptor time), harness Marshallable/Unmarshallable, supervised worker process; in faulty runs simfs (fault plane) between the store and its own MemMapFs"},
        "assumptions": COMMON_ASSUMPTIONS,
    },
    "C11": {
        "engines": [{"name": "fstrace"}],
        "level": "exploration",
        "technique": "simulated efivarfs device: recording afero.Fs + firmware model; oracle over the recorded operation trace, complete grid of predefined variables x stored masks x APIs x directories plus seeded generated definitions, legal short-read schedules, seeded interleaving of 2-3 callers at the filesystem calls, and foreign stores between reads (some leaving the modification time unchanged)",
        "design_ref": "DESIGN.md section 3 (C11), 2.3 (simfs, fwmodel)",
        "level_text": ("The sequence of filesystem operations the library issues is observed at the only place where one write and two writes differ -- the device boundary -- "
                       "for every predefined variable on both APIs (grid enumerated completely) and for seeded name/GUID/mask/value/stored-mask combinations with "
                       "seeded legal read chunkings; a twenty-line firmware model turns a wrong call sequence into a wrong end state. Exploration level: the generated "
                       "definitions are sampled."),
        "level_note": ("Trusted: simfs recorder, the firmware model (each write(2) = one SetVariable; append only with O_APPEND and APPEND_WRITE; <4 bytes EINVAL; empty data deletes), "
                       "reference path/GUID formatting in refvars.go. Extra open flag bits and read-only metadata calls are accepted; efi/efi.go Get* helpers are out of scope."),
        "rule": ("Grid: every predefined efivar definition x {obj,legacy} write APIs x values x with/without APPEND_WRITE x 4 efivars directories; reads x every stored-mask relation "
                 "(equal, superset, each required bit removed, disjoint, zero) x present/absent/0-3 byte files x decoder failure; name-resolving legacy entry points, "
                 "WriteSignedUpdate, nine typed accessors (in the seeded part on values of arbitrary well-formed shape), boot-entry sequences, every name-addressable variable plus near-miss names on the name-resolving legacy API, a machine without "
                 "efivars directory. Then seeded sequences of 1-4 operations over generated definitions (incl. same name under two GUIDs) under seeded device behaviour: legal short reads, a device "
                 "that accepts a short write, a missing directory, and 2-3 interleaved caller goroutines (every filesystem call is a yield point). Every case is non-trivial; "
                 "distinct = distinct event-log hash."),
        "exhaustive": lambda tier: False,
        "components": {"real": REAL, "stub": "simfs (recording afero.Fs over MemMapFs with seeded legal short reads), fwmodel (firmware contract), harness Marshallable/Unmarshallable, synctest clock for signed updates"},
        "assumptions": COMMON_ASSUMPTIONS + ["kernel efivarfs sources are not available offline: the firmware model asserts only what the property itself relies on",
                                             "the legacy write path's attr.IsImmutable touches the real filesystem (ENOENT in the sandbox); simfs reports the name MemMapFS so that the path stays simulated"],
    },
    "C15": {
        "engines": [{"name": "faultseq"}],
        "level": "fault_enumeration",
        "technique": "deterministic fault injection at the Signer / afero.Fs / io.ReaderAt seams: exhaustive single-fault enumeration per recorded dependency-call sequence + seeded multi-fault sequences, supervised worker as crash observer",
        "design_ref": "DESIGN.md section 3 (C15), 2.3",
        "level_text": ("For every operation instance the single-fault space (every call position x every legal failure kind) is enumerated completely, so within "
                       "the instance catalogue a missed error path cannot hide; multi-fault and persistent-fault sequences are sampled. This is the natural "
                       "level for a property that is itself quantified over fault sequences; what remains unexplored is the instance catalogue "
                       "(other images, payloads) and k-fault combinations beyond the sample."),
        "level_note": ("Trusted: the seam wrappers in /verif/sim/seams.go, the fault-free run as reference result, the worker write-ahead record for "
                       "attributing process deaths. Assumes faults are non-EOF errors; ioctl-based immutable-flag handling is not simulated."),
        "rule": ("Operation instances (sign blob/image/variable, write variable on both APIs, signed update, read variable on both APIs, "
                 "typed accessors and the legacy efi.Get* helpers, parse/hash/sign/verify image, a six-step signing history and Authenticode.Verify on fixtures and seeded generated images) are first run fault-free with "
                 "counting seams to record the dependency-call sequence; then one case per (position k, fault kind[, byte count]) for "
                 "EVERY position and every kind legal for that call (err; partial_err/short_nil with 1, 2, len-1 bytes; err_full = all bytes taken and an error; early_eof for file reads), plus "
                 "the same failures with the identities an operating system gives them (*PathError around ENOENT / EINTR; io.ErrUnexpectedEOF and EIO for the image reader; temporary errors of the signer), "
                 "after every failed case the same operation on a fresh object over healthy dependencies must give the fault-free result (a failure stays local), "
                 "seeded multi-fault and persistent (device gone) sequences. A case is non-trivial when an injected fault actually fired "
                 "inside the operation; distinct = distinct (instance, fired fault list)."),
        "exhaustive": lambda tier: True,
        "exhaustive_scope": "single-fault space: every position of every instance's recorded dependency-call sequence x every legal kind; multi-fault sequences are sampled",
        "components": {"real": REAL, "stub": "simsigner (crypto.Signer), simfs (afero.Fs/afero.File recorder+injector), simreader (io.ReaderAt), synctest fake clock, supervised worker process as crash observer"},
        "assumptions": COMMON_ASSUMPTIONS + [
            "EOF-typed faults of the image reader are excluded (indistinguishable from a shorter file)",
            "efi/efi.go top-level Get* helpers are not exercised (they deliberately map absent/EOF to an empty database)",
            "the immutable-flag ioctl path talks to the kernel directly and is outside the simulated world"],
    },
}


ENGINE_KINDS = {
    "faultseq": "fault-plane simulation: counting/injecting crypto.Signer, afero.Fs, io.ReaderAt; exhaustive single-fault replay per operation instance",
    "fstrace": "recording simulated efivarfs with a firmware model; trace oracle at the filesystem boundary",
    "varstore": "seeded write/read histories on the in-memory store against a register model (+ porcupine)",
    "dbhist": "seeded edit histories against an ordered-entry reference model; encode/decode as restart",
    "varsign_race": "2-8 free-running signing goroutines under the race detector (monitored real concurrency, not simulation); every produced update is judged by the varsign oracle afterwards",
    "varsign_tz": "same as varsign, zone configured through the TZ environment variable of the worker process",
    "varsign": "simulated clock (synctest) x zone configurations; byte-exact layout and independent CMS verification",
    "signhist": "seeded signing histories on generated PE images under a simulated clock; independent PE/CMS readers as oracle",
    "sched_instr": "sched against a scratch copy of /repo with go/ast-inserted yield points (function entries, loop heads)",
    "sched_race": "sched mode 3: the same clients free-running under the race detector at GOMAXPROCS 2/4/16",
    "sched": "cooperative seeded scheduler over real goroutines parked at yield points; sequential-history and race-detector modes",
}

NOT_APPLICABLE = {
    "C01": "the digest is a pure function of the image bytes; no schedule, clock, fault or history enters the verdict, so there is nothing for a simulator to decide (differential testing against a spec implementation is the fitting technique)",
    "C02": "soundness of Verify is a pure function of (image bytes, certificate) over adversarially constructed inputs; forging is input construction, not an environment fault",
    "C04": "same as C02 for (*PKCS7).Verify: a pure verdict over crafted blobs",
    "C05": "acceptance of produced signatures by third-party verifiers is a pure input->output conformance claim; the only seam (signing time) does not enter the verdict",
    "C07": "encode/decode inverse is a pure codec property",
    "C08": "accept/reject of a byte string by the decoder is pure; the decoder reads its io.Reader once, front to back, so EOF at instant k is exactly input of length k and a fault schedule degenerates to input mutation",
    "C10": "descriptor/WIN_CERTIFICATE round-trip and consumed-length accounting are pure codec properties",
    "C13": "for every byte string ... never crash is input-space robustness (fuzzing); dressing mutation in fault vocabulary would not change what is decided",
    "C14": "as C13, and its second half is a static inventory of termination call sites (program analysis)",
    "C16": "depends on the option matrix of third-party producers at build time, not on any runtime behaviour of an environment",
    "C17": "pure conversions",
    "C18": "pure decoding and the composition of two pure calls on a fixed store",
}
