#!/bin/sh
# Offline setup: warm the Go build cache for the worker binary so that the
# first check does not pay for compiling the standard library.
set -e
export GOFLAGS=-mod=mod GOPROXY=off GOSUMDB=off GOTOOLCHAIN=local
GO=$(command -v go1.26.8 || echo /opt/veriftools/go1.26.8/bin/go)
tmp=$(mktemp -d)
trap 'rm -rf "$tmp"' EXIT
cp -r "$(dirname "$0")/sim" "$tmp/sim"
(cd "$tmp/sim" && "$GO" test -c -o "$tmp/sim.test" . && "$GO" test -race -c -o "$tmp/sim-race.test" .)
if [ -d "$(dirname "$0")/tools/yieldpass" ]; then
  (cd "$(dirname "$0")/tools/yieldpass" && "$GO" build -o "$tmp/yieldpass" .)
fi
echo setup ok
